"""C20 - format detection is total, consistent and recognises pycaption's own output.

Decided clauses (DESIGN.md 4/C20):
 1 order      SUPPORTED_READERS folds to (DFXP, MicroDVD, WebVTT, SAMI, SRT, SCC); detect_format returns the first
              reader whose detect is truthy, None after the loop; the emptiness guard raising CaptionReadNoCaptions
              dominates the loop
 2 R-NOTHROW  no construct in the six detect methods (and the readers' no-argument construction) can raise on a
              non-empty str: subscripts need a length guard, no unpacking of unknown-length sequences, ...
 3 markers    each writer's skeleton contains the marker its reader sniffs; MicroDVD's written line language is in
              the sniffer's language; no earlier sniffer's marker occurs in a later format's skeleton
NOT decided: that the detected reader then reads the document.
"""
import ast
import re

from ..core.tree import AnalysisError
from ..core.constfold import Folder, ClassRef, Stub
from ..core.astutil import walk_no_nested, call_name, short, src
from ..engines import regexlang as R
from ..engines.regexuse import regex_uses
from ..spec import time_grammar as T

ORDER = ["DFXPReader", "MicroDVDReader", "WebVTTReader", "SAMIReader", "SRTReader", "SCCReader"]
SAFE_STR_METHODS = {"splitlines", "lower", "upper", "strip", "lstrip", "rstrip", "isdigit", "startswith", "endswith",
                    "find", "count", "isspace", "isalpha", "isalnum", "casefold", "split", "partition", "rpartition"}
SAFE_FUNCS = {"len", "bool", "str", "isinstance", "any", "all", "re.match", "re.search", "re.fullmatch", "re.compile"}


def run(ctx, report):
    folder = ctx.memo("folder", lambda: Folder(ctx.index))
    report.section("order", order, ctx, report, folder)
    report.section("exception freedom", nothrow, ctx, report, folder)
    report.section("own output markers", markers, ctx, report, folder)
    report.not_decided.append("that the detected reader then reads the document, for the DFXP and SAMI writers (third-party "
                              "parser); the SRT, WebVTT, MicroDVD and SCC writer/reader pairs are folded back to back")
    report.assume("a non-empty str has at least one line under str.splitlines()")
    report.assume("bs4 prettify keeps the closing </tt> / the <sami> root of the skeleton it was given")


def order(ctx, report, folder):
    readers = folder.value("pycaption", "SUPPORTED_READERS")
    names = [r.cls.name if isinstance(r, ClassRef) else str(r) for r in readers]
    report.check(names == ORDER, "R-TABLE-REF", ("pycaption/__init__.py", "<module>"),
                 "SUPPORTED_READERS is probed in the documented order", {"found": names, "required": ORDER}, "1")


# --------------------------------------------------------------------------
def nothrow(ctx, report, folder):
    readers = folder.value("pycaption", "SUPPORTED_READERS")
    n = 0
    for r in readers:
        cls = r.cls
        det = cls.find_method("detect")
        if det is None:
            raise AnalysisError(f"{cls.name}: no detect method")
        report.covered(det)
        impure = []
        problems, unknown = scan_nothrow(det, folder, ctx.index, impure=impure)
        n += 1
        if impure:
            report.violation("R-PURE", det, "detect answers from the text alone (no module-level state written, no object identity)",
                             {"constructs": impure[:3]}, "1")
        if unknown and not problems and not impure:
            raise AnalysisError(f"{det.qualname}: constructs outside the exception-freedom whitelist: {unknown[:3]}")
        report.check(not problems, "R-NOTHROW", det, "detect cannot raise on a non-empty string",
                     {"constructs_that_can_raise": problems} if problems else None, "2")
        init = cls.find_method("__init__")
        if init is not None:
            a = init.node.args
            required = len(a.posonlyargs + a.args) - 1 - len(a.defaults)
            kwreq = [k.arg for k, d in zip(a.kwonlyargs, a.kw_defaults) if d is None]
            report.check(required <= 0 and not kwreq, "R-NOTHROW", init, "the reader can be constructed without arguments",
                         {"required_positional": required, "required_keyword_only": kwreq}, "2")
    if n < 6:
        raise AnalysisError(f"only {n} detect methods analysed (floor 6)")


# what a conversion of arbitrary text can raise
RAISES = {"int": ("ValueError",), "float": ("ValueError",), "Fraction": ("ValueError", "ZeroDivisionError"),
          "fractions.Fraction": ("ValueError", "ZeroDivisionError"), "Decimal": ("InvalidOperation",),
          "decimal.Decimal": ("InvalidOperation",), "complex": ("ValueError",), "ord": ("TypeError",), "chr": ("ValueError",),
          "json.loads": ("ValueError",), "bytes.fromhex": ("ValueError",), "ast.literal_eval": ("ValueError", "SyntaxError")}
PARENTS = {"ZeroDivisionError": ("ArithmeticError",), "InvalidOperation": ("ArithmeticError",), "OverflowError": ("ArithmeticError",),
           "IndexError": ("LookupError",), "KeyError": ("LookupError",), "UnicodeError": ("ValueError",),
           "UnicodeDecodeError": ("UnicodeError", "ValueError"), "UnicodeEncodeError": ("UnicodeError", "ValueError")}


def _caught(exc, anc):
    names = {exc, "Exception", "BaseException", "*"} | set(PARENTS.get(exc, ()))
    return any(kind == "try" and names & test for kind, test in anc)


def scan_nothrow(fn, folder=None, index=None, _depth=0, impure=None):
    par = fn.params[1] if len(fn.params) > 1 else "content"
    problems, unknown = [], []
    impure = impure if impure is not None else []
    line_lists = {}   # name -> 'splitlines' | 'split'
    for n in walk_no_nested(fn.node):
        if isinstance(n, ast.Assign) and len(n.targets) == 1 and isinstance(n.targets[0], ast.Name) \
                and isinstance(n.value, ast.Call) and isinstance(n.value.func, ast.Attribute) \
                and n.value.func.attr in ("splitlines", "split"):
            line_lists[n.targets[0].id] = (n.value.func.attr, src(n.value.func.value))

    def len_bound(test, name, positive):
        """greatest m such that `len(name) >= m` follows from `test` being true (positive) or false"""
        if isinstance(test, ast.UnaryOp) and isinstance(test.op, ast.Not):
            return len_bound(test.operand, name, not positive)
        if isinstance(test, ast.BoolOp):
            parts = [len_bound(v, name, positive) for v in test.values]
            is_and = isinstance(test.op, ast.And)
            # true `and` / false `or`: every part holds;  otherwise only the weakest is certain
            return max(parts) if (is_and == positive) else min(parts)
        if isinstance(test, ast.Name) and test.id == name:
            return 1 if positive else 0
        if isinstance(test, ast.Compare) and len(test.ops) == 1:
            l, op, r = test.left, test.ops[0], test.comparators[0]
            flip = {ast.Lt: ast.Gt, ast.Gt: ast.Lt, ast.LtE: ast.GtE, ast.GtE: ast.LtE, ast.Eq: ast.Eq, ast.NotEq: ast.NotEq}
            if src(r) == f"len({name})" and isinstance(l, ast.Constant) and type(op) in flip:
                l, r, op = r, l, flip[type(op)]()
            if src(l) == f"len({name})" and isinstance(r, ast.Constant) and isinstance(r.value, int):
                k = r.value
                neg = {ast.Lt: ast.GtE, ast.LtE: ast.Gt, ast.Gt: ast.LtE, ast.GtE: ast.Lt, ast.Eq: ast.NotEq, ast.NotEq: ast.Eq}
                o = type(op) if positive else neg.get(type(op))
                if o is ast.Gt:
                    return k + 1
                if o is ast.GtE:
                    return k
                if o is ast.Eq:
                    return k
                if o is ast.NotEq and k == 0:
                    return 1
        return 0

    def guarded(sub, k, ancestors):
        """is x[k] protected by a test that implies len(x) > k on the path to it (enclosing `if`,
        earlier conjunct, or an earlier guard clause that left the function)?"""
        name = src(sub.value)
        for kind, test in ancestors:
            if kind == "try-IndexError":
                return True
            if test is None or kind == "try":
                continue
            if len_bound(test, name, kind != "ifnot") >= k + 1:
                return True
        return False

    def follow(call, anc):
        """an in-package helper: what it can raise, it can raise here (unless caught here)"""
        if index is None or _depth >= 2:
            return False
        from ..core.astutil import resolve_callee
        callee = resolve_callee(index, fn, call)
        if callee is None:
            return False
        p2, u2 = scan_nothrow(callee, folder, index, _depth + 1, impure)
        unknown.extend(f"{callee.qualname}: {u}" for u in u2)
        if p2 and not any(kind == "try" and ({"Exception", "BaseException", "*"} & test) for kind, test in anc):
            problems.extend(f"{callee.qualname}: {x}" for x in p2)
        return True

    def visit_expr(e, anc):
        if isinstance(e, ast.BoolOp) and isinstance(e.op, ast.And):
            acc = list(anc)
            for v in e.values:
                visit_expr(v, acc)
                acc = acc + [("and", v)]
            return
        if isinstance(e, ast.BoolOp):
            for v in e.values:
                visit_expr(v, anc)
            return
        if isinstance(e, ast.IfExp):
            visit_expr(e.test, anc)
            visit_expr(e.body, anc + [("if", e.test)])
            visit_expr(e.orelse, anc)
            return
        if isinstance(e, ast.Subscript):
            visit_expr(e.value, anc)
            if isinstance(e.slice, ast.Slice):
                for p in (e.slice.lower, e.slice.upper, e.slice.step):
                    if p is not None:
                        visit_expr(p, anc)
                return
            if isinstance(e.slice, ast.Constant) and isinstance(e.slice.value, int):
                k = e.slice.value
                name = src(e.value)
                info = line_lists.get(name)
                if isinstance(e.value, ast.Call) and isinstance(e.value.func, ast.Attribute) and k in (0, -1) \
                        and ((e.value.func.attr == "splitlines" and src(e.value.func.value) == par)
                             or (e.value.func.attr == "split" and e.value.args)):
                    return    # same two facts, without the intermediate name
                if info and info[0] == "splitlines" and info[1] == par and k in (0, -1):
                    return    # non-empty string -> at least one line
                if info and info[0] == "split" and k in (0, -1):
                    return    # str.split always yields at least one piece (with a separator argument)
                if k >= 0 and guarded(e, k, anc):
                    return
                if isinstance(e.value, ast.Name) and index is not None:
                    b_ = index.resolve(fn.module, e.value.id)
                    vals = b_.target if b_ is not None and b_.kind == "const" else None
                    if vals and all(isinstance(x_, (ast.Tuple, ast.List)) and len(x_.elts) > (k if k >= 0 else -k - 1)
                                    or isinstance(x_, ast.Constant) and isinstance(x_.value, str) and len(x_.value) > (k if k >= 0 else -k - 1)
                                    for x_ in vals):
                        return    # a module-level constant sequence that is long enough

                problems.append(f"{src(e)}: index {k} of a sequence whose length is not tested (IndexError)")
                return
            problems.append(f"{src(e)}: subscript with a non-constant index")
            return
        if isinstance(e, ast.Call):
            cn = call_name(e) or ""
            for a in list(e.args) + [k.value for k in e.keywords]:
                visit_expr(a, anc)
            if isinstance(e.func, ast.Attribute):
                visit_expr(e.func.value, anc)
                if e.func.attr in SAFE_STR_METHODS:
                    return
                if cn in SAFE_FUNCS:
                    return
                if e.func.attr in ("match", "search", "fullmatch", "findall", "finditer") and folder is not None:
                    # a pattern compiled once (module or class constant): compiling cannot fail at call time,
                    # matching a str never raises
                    try:
                        use = [u for u in regex_uses(fn, folder) if u.node is e]
                    except AnalysisError:
                        use = []
                    if use:
                        try:
                            re.compile(use[0].pattern, use[0].flags or 0)
                        except re.error as ex:
                            problems.append(f"{src(e)}: the pattern does not compile ({ex})")
                        return
                if e.func.attr in ("group", "groups", "start", "end", "span", "groupdict"):
                    recv = src(e.func.value)
                    tested = False
                    for kind, test in anc:
                        if kind == "try" and ({"AttributeError", "Exception", "BaseException", "*"} & test):
                            tested = True
                        if kind in ("if", "and") and test is not None and kind != "try" and src(test) in (recv, f"{recv} is not None"):
                            tested = True
                        if kind == "ifnot" and src(test) in (f"{recv} is None", f"not {recv}"):
                            tested = True
                    if not tested:
                        problems.append(f"{src(e)}: attribute of a match object that may be None (AttributeError)")
                    return
                if e.func.attr in ("index",):
                    if not _caught("ValueError", anc):
                        problems.append(f"{src(e)}: str.index raises ValueError when absent")
                    return
                if cn in RAISES:
                    missing = [x for x in RAISES[cn] if not _caught(x, anc)]
                    if missing:
                        problems.append(f"{src(e)}: conversion of arbitrary text raises {' / '.join(missing)}, not caught here")
                    return
                if follow(e, anc):
                    return
                unknown.append(src(e)[:80])
                return
            if cn in SAFE_FUNCS:
                return
            if cn in RAISES:
                missing = [x for x in RAISES[cn] if not _caught(x, anc)]
                if missing:
                    problems.append(f"{src(e)}: conversion of arbitrary text raises {' / '.join(missing)}, not caught here")
                return
            if cn in ("id", "hash"):
                impure.append(f"{fn.qualname}: {src(e)}: the identity / hash of an object is not a property of the text")
                return
            if follow(e, anc):
                return
            unknown.append(src(e)[:80])
            return
        if isinstance(e, (ast.Compare,)):
            visit_expr(e.left, anc)
            for c in e.comparators:
                visit_expr(c, anc)
            return
        if isinstance(e, ast.UnaryOp):
            visit_expr(e.operand, anc)
            return
        if isinstance(e, ast.BinOp):
            visit_expr(e.left, anc)
            visit_expr(e.right, anc)
            if isinstance(e.op, (ast.Div, ast.FloorDiv, ast.Mod)):
                problems.append(f"{src(e)}: division may raise ZeroDivisionError")
            return
        if isinstance(e, (ast.Name, ast.Constant)):
            return
        if isinstance(e, ast.Attribute):
            visit_expr(e.value, anc)
            return
        if isinstance(e, (ast.Tuple, ast.List)):
            for x in e.elts:
                visit_expr(x, anc)
            return
        if isinstance(e, ast.JoinedStr):
            return
        unknown.append(f"{type(e).__name__}: {src(e)[:60]}")

    def visit_block(body, anc):
        for st in body:
            if isinstance(st, ast.Expr):
                if isinstance(st.value, ast.Constant):
                    continue
                visit_expr(st.value, anc)
            elif isinstance(st, ast.Assign):
                visit_expr(st.value, anc)
                for t in st.targets:
                    if isinstance(t, (ast.Tuple, ast.List)):
                        v = st.value
                        fixed = isinstance(v, (ast.Tuple, ast.List)) and len(v.elts) == len(t.elts)
                        if not fixed and isinstance(v, ast.Call) and isinstance(v.func, ast.Attribute) and v.func.attr == "groups" \
                                and isinstance(v.func.value, ast.Name):
                            # m.groups() of a pattern written in the function: as many values as the pattern has groups
                            pats = [a_.value.args[0].value for a_ in walk_no_nested(fn.node) if isinstance(a_, ast.Assign)
                                    and any(isinstance(t_, ast.Name) and t_.id == v.func.value.id for t_ in a_.targets)
                                    and isinstance(a_.value, ast.Call) and a_.value.args and isinstance(a_.value.args[0], ast.Constant)
                                    and isinstance(a_.value.args[0].value, str)]
                            try:
                                fixed = bool(pats) and all(re.compile(p_).groups == len(t.elts) for p_ in pats)
                            except re.error:
                                fixed = False
                        if not fixed:
                            problems.append(f"{short(st)}: unpacking {len(t.elts)} names from a sequence of "
                                            f"unknown length (ValueError)")
                    elif not isinstance(t, ast.Name):
                        unknown.append(short(st))
            elif isinstance(st, ast.Return):
                if st.value is not None:
                    visit_expr(st.value, anc)
            elif isinstance(st, ast.If):
                visit_expr(st.test, anc)
                visit_block(st.body, anc + [("if", st.test)])
                visit_block(st.orelse, anc + [("ifnot", st.test)])
                if st.body and isinstance(st.body[-1], (ast.Return, ast.Raise, ast.Continue, ast.Break)) and not st.orelse:
                    anc = anc + [("ifnot", st.test)]      # guard clause: the rest runs only when the test was false
            elif isinstance(st, ast.Try):
                names = []
                for h in st.handlers:
                    if h.type is None:
                        names.append("*")
                    else:
                        names.extend(re.findall(r"\w+", src(h.type)))
                extra = [("try-IndexError", None)] if ("IndexError" in names or "Exception" in names or "*" in names
                                                        or "LookupError" in names) else []
                extra.append(("try", set(names)))
                visit_block(st.body, anc + extra)
                for h in st.handlers:
                    visit_block(h.body, anc)
                visit_block(st.orelse, anc)
                visit_block(st.finalbody, anc)
            elif isinstance(st, ast.Raise):
                problems.append(f"{short(st)}: explicit raise")
            elif isinstance(st, ast.Pass):
                pass
            elif isinstance(st, (ast.Global, ast.Nonlocal)):
                impure.append(f"{fn.qualname}: `{short(st)}`: module-level state is written: the answer depends on earlier calls")
            else:
                unknown.append(f"{type(st).__name__}: {short(st)}")
    visit_block(fn.node.body, [])
    return problems, unknown


# --------------------------------------------------------------------------
def _const_strings(fn):
    out = []
    for n in walk_no_nested(fn.node):
        if isinstance(n, ast.Constant) and isinstance(n.value, str):
            out.append(n.value)
    return out


def _first_written(idx, folder, path, qual):
    """value of the first assignment to the name `write` returns: what the document starts with"""
    fn = idx.get_function(path, qual, inline=True)
    rets = [n for n in walk_no_nested(fn.node) if isinstance(n, ast.Return) and n.value is not None]
    def head(e):
        while isinstance(e, ast.BinOp) and isinstance(e.op, ast.Add):
            e = e.left            # `return output + more`: the document still starts with `output`
        return e
    heads = [head(r.value) for r in rets]
    names = {h.id for h in heads if isinstance(h, ast.Name)}
    if len(names) != 1 or not all(isinstance(h, ast.Name) for h in heads):
        raise AnalysisError(f"{qual}: the returned document is not a single accumulated name")
    name = names.pop()
    first = sorted((n for n in walk_no_nested(fn.node) if isinstance(n, (ast.Assign, ast.AugAssign))
                    and src(n.targets[0] if isinstance(n, ast.Assign) else n.target) == name), key=lambda n: n.lineno)
    if not first or not isinstance(first[0], ast.Assign):
        raise AnalysisError(f"{qual}: first write to {name} not found")
    try:
        v = folder.eval_in(fn.module, first[0].value, {"self": Stub(fn.cls.name, {}, cls=fn.cls)})
    except AnalysisError as e:
        raise AnalysisError(f"{qual}: the document's first piece does not fold: {e}")
    if not isinstance(v, str):
        raise AnalysisError(f"{qual}: the document's first piece is not a string")
    return fn, first[0], v


def markers(ctx, report, folder):
    """every writer's real output (the writers are folded on small caption sets; DFXP and SAMI through the BeautifulSoup
    model) is claimed by its own reader's sniffer first"""
    from . import c20_fold
    idx = ctx.index
    det = {n: idx.find_class(n).find_method("detect") for n in ORDER}
    documents, where = c20_fold.writer_documents(ctx)
    sn = c20_fold.run(ctx, report, folder, documents)
    own = {"DFXPWriter": "DFXPReader", "LegacyDFXPWriter": "DFXPReader", "SinglePositioningDFXPWriter": "DFXPReader",
           "SAMIWriter": "SAMIReader", "WebVTTWriter": "WebVTTReader", "SCCWriter": "SCCReader", "SRTWriter": "SRTReader",
           "MicroDVDWriter": "MicroDVDReader"}
    for w, r in own.items():
        site = where[w]
        acc = [sn.accepts(r, d) for d in documents[w]]
        report.check(all(a is True for a in acc), "R-MARKER", site,
                     f"{r}.detect accepts the documents {w} writes",
                     {"documents": [d[:60] for d in documents[w]], "accepted": [a if isinstance(a, bool) else list(a) for a in acc]}, "3")
        for earlier in ORDER[:ORDER.index(r)]:
            hit = [d[:60] for d in documents[w] if sn.accepts(earlier, d) is True]
            report.check(not hit, "R-MARKER-EXCLUSION", site,
                         f"{earlier}.detect (probed earlier) does not accept {w}'s documents", {"accepted": hit} if hit else None, "3")
    c20_fold.own_output(ctx, report, sn)
    # MicroDVD: language of a written line <= sniffer
    md = det["MicroDVDReader"]
    uses = [u for u in regex_uses(md, folder) if u.method in ("match", "search", "fullmatch")]
    if len(uses) != 1:
        raise AnalysisError("MicroDVDReader.detect: expected one regex application")
    u = uses[0]
    alpha = R.make_alphabet(u.pattern)
    lang = R.lang_of_pattern(u.pattern, alpha, u.mode, u.flags)
    mw = idx.get_function("pycaption/microdvd.py", "MicroDVDWriter._recreate_lang")
    from ..core.astutil import template_holes, closure_nodes
    fs = []
    for f2, n in closure_nodes(ctx.index, mw, (ast.JoinedStr, ast.Call, ast.BinOp)):
        th = template_holes(n)
        if th is not None and th[0].startswith("{}{}") and len(th[1]) >= 2:
            fs.append(n)
    if len(fs) != 1:
        raise AnalysisError("MicroDVDWriter: {start}{end} template not found")
    # a written document: prefix, then any text without a newline, then newline, then anything
    nonl = R.cset(alpha.set - {"\n"})
    written = R.cat(T.microdvd_prefix(), R.star(nonl), R.lit("\n"), R.star(R.cset(alpha.set)))
    w = R.difference_witness(R.Lang(written, alpha, "full"), lang)
    report.check(w is None, "R-LANG-INCL", (md, u.node),
                 "every document MicroDVDWriter can produce (first line {n}{n}text, text possibly empty) is accepted",
                 {"pattern": u.pattern, "applied_with": u.method,
                  **({"shortest_unrecognised_output": w} if w is not None else {})}, "3")


def _srt_first_index(srt):
    """The number printed on the first index line of SRT output: the emission loop prints a
    counter (alone on its line) before the arrow line; the counter's first value is its
    initialisation (`c = K` + increment in the loop) or the `start` of enumerate()."""
    from ..core.astutil import template_holes
    loops = [n for n in walk_no_nested(srt.node) if isinstance(n, ast.For) and " --> " in src(n)]
    if len(loops) != 1:
        raise AnalysisError(f"SRTWriter._recreate_lang: emission loop not recognised ({len(loops)} candidates)")
    lp = loops[0]
    counter = None
    arrow_seen = False
    for n in walk_no_nested(lp):
        th = template_holes(n) if isinstance(n, (ast.JoinedStr, ast.Call, ast.BinOp)) else None
        if th is None:
            continue
        lits, holes = th
        if "-->" in lits:
            arrow_seen = True
        elif lits.strip(" ") == "\n" and len(holes) == 1 and isinstance(holes[0], ast.Name) and not arrow_seen \
                and counter is None:
            counter = holes[0].id
    if counter is None:
        raise AnalysisError("SRTWriter._recreate_lang: index line (a counter alone on its line, before the arrow line) not found")
    # (b) enumerate
    if isinstance(lp.target, ast.Tuple) and isinstance(lp.iter, ast.Call) and call_name(lp.iter) == "enumerate" \
            and isinstance(lp.target.elts[0], ast.Name) and lp.target.elts[0].id == counter:
        k = lp.iter.args[1] if len(lp.iter.args) > 1 else next((kw.value for kw in lp.iter.keywords if kw.arg == "start"), None)
        if k is None:
            return 0
        if isinstance(k, ast.Constant) and isinstance(k.value, int):
            return k.value
        raise AnalysisError("SRTWriter._recreate_lang: enumerate start is not a literal")
    # (a) explicit counter
    inits = [n for n in walk_no_nested(srt.node) if isinstance(n, ast.Assign) and len(n.targets) == 1
             and src(n.targets[0]) == counter and n.lineno < lp.lineno]
    incs = [n for n in walk_no_nested(lp) if isinstance(n, ast.AugAssign) and src(n.target) == counter]
    if len(inits) != 1 or not isinstance(inits[0].value, ast.Constant) or not incs:
        raise AnalysisError("SRTWriter._recreate_lang: counter initialisation / increment not recognised")
    return inits[0].value.value
