"""C01 (lexical forms): the readers' timestamp converters folded on enumerated spellings.

The symbolic rules of C01 decide the ARITHMETIC for all values of each field; they take the
regular expression's groups as given.  Which group a character ends up in is decided by the
regex engine's own matching order (leftmost alternative, greedy quantifiers, anchoring), so
the converters are additionally folded - the checker's evaluator on their source, the stdlib
`re` on the pattern constants - on every spelling of a small enumeration of each format's
timestamp grammar, and the result is compared with the instant the spelling denotes (computed
here from the format specification, in exact rational arithmetic).
"""
import itertools
from fractions import Fraction

from ..core.tree import AnalysisError
from ..core.constfold import Folder, Stub, FoldRaise
from ..spec import time_grammar as T

H, M, S = 3600 * 10**6, 60 * 10**6, 10**6


def ttml_spellings():
    out = []
    for count in ("0", "1", "7", "12", "30", "1500", "0.5", "1.25", "10.000001", "007"):
        for metric, unit in T.TTML_OFFSET_UNITS.items():
            v = Fraction(count) * Fraction(unit)
            if v.denominator == 1:
                out.append((count + metric, int(v)))
    for hh, mm, ss in itertools.product(("00", "01", "10", "100", "1000"), ("00", "59"), ("00", "07", "59")):
        base = int(hh) * H + int(mm) * M + int(ss) * S
        for tail, extra in (("", 0), (".5", 500000), (".123", 123000), (".123456", 123456), (".000001", 1),
                            (":15", 500000), (":00", 0), (".1234567", 123456)):
            out.append((f"{hh}:{mm}:{ss}{tail}", base + extra))
    return out


def srt_spellings():
    out = []
    for hh, mm, ss, ms in itertools.product(("00", "01", "10", "100"), ("00", "59"), ("00", "07", "59"), ("000", "001", "500", "999")):
        out.append((f"{hh}:{mm}:{ss},{ms}", int(hh) * H + int(mm) * M + int(ss) * S + int(ms) * 1000))
    return out


def webvtt_spellings():
    out = []
    for hh, mm, ss, ms in itertools.product((None, "00", "01", "10", "100"), ("00", "59"), ("00", "07", "59"), ("000", "001", "500", "999")):
        v = (int(hh) * H if hh else 0) + int(mm) * M + int(ss) * S + int(ms) * 1000
        out.append(((f"{hh}:" if hh else "") + f"{mm}:{ss}.{ms}", v))
    return out


SITES = [
    ("TTML time expression", "pycaption/dfxp/base.py", "DFXPReader._convert_timestamp_to_microseconds", ttml_spellings, {}),
    ("SRT timestamp", "pycaption/srt.py", "SRTReader._srttomicro", srt_spellings, {}),
    ("WebVTT timestamp", "pycaption/webvtt.py", "WebVTTReader._parse_timestamp", webvtt_spellings, {}),
]


def run(ctx, report, clause="2"):
    folder = ctx.memo("folder", lambda: Folder(ctx.index))
    total = 0
    for label, path, q, gen, attrs in SITES:
        fn = ctx.index.get_function(path, q)
        report.covered(fn)
        bad = []
        n = 0
        for text, want in gen():
            n += 1
            me = Stub("reader", dict(attrs), cls=fn.cls)
            try:
                got = folder.call_function(fn, [text], {}, self_value=me)
            except FoldRaise as e:
                got = f"raises {e.exc_name}"
            except AnalysisError as e:
                raise AnalysisError(f"{q} cannot be folded on {text!r}: {e}")
            if got != want or isinstance(got, bool) or not isinstance(got, int):
                bad.append({"spelling": text, "read_as": got if isinstance(got, (int, str)) else repr(got)[:40],
                            "denotes_us": want})
        total += n
        report.check(not bad, "R-DENOTES", fn, f"{label}: every enumerated spelling is read as the instant it denotes",
                     {"spellings": n, "mismatches": bad[:3]}, clause)
    # MicroDVD: frame numbers at the default rate are exact multiples of 40 000 us
    fn = ctx.index.get_function("pycaption/microdvd.py", "MicroDVDReader._framestomicro")
    report.covered(fn)
    a = fn.node.args
    if not a.defaults:
        raise AnalysisError("MicroDVDReader._framestomicro: no default frame rate")
    bad = []
    frames = list(range(0, 2001)) + [10**5 + 1, 2159999]
    for f in frames:
        try:
            got = folder.call_function(fn, [f], {}, self_value=Stub("reader", {}, cls=fn.cls))
        except FoldRaise as e:
            got = f"raises {e.exc_name}"
        except AnalysisError as e:
            raise AnalysisError(f"_framestomicro cannot be folded: {e}")
        want = f * 10**6 // T.MICRODVD_DEFAULT_FPS
        if got != want:
            bad.append({"frame": f, "read_as": got, "denotes_us": want})
    report.check(not bad, "R-DENOTES", fn, "MicroDVD frame numbers at the default rate: every frame in 0..2000 (and two large "
                 "ones) is read as frame * 40 000 us", {"frames": len(frames), "mismatches": bad[:3]}, clause)
    report.count("timestamp_spellings_folded", total + len(frames))
