"""WebVTTWriter._group_cues_by_layout decided by folding its source on stub node sequences.

The routine is a small transducer over the node list (it looks at the current node, the previous
node's kind and three locals).  It is folded - constant evaluation of the source, nothing
imported - on EVERY node sequence up to a stated length over a small alphabet, with the writer's
own helper methods (_encode_illegal_characters, _calculate_resulting_style,
_convert_style_to_text_tag) folded from their source as well.  Used by C03 (no blank line inside a
cue), C11 (tags close in reverse order) and C12 (a new cue starts exactly when the layout of a text
node differs)."""
import itertools
import re

from ..core.tree import AnalysisError
from ..core.constfold import Folder, Stub

VTT = "pycaption/webvtt.py"


class Cues:
    def __init__(self, ctx):
        self.ctx = ctx
        self.folder = ctx.memo("folder", lambda: Folder(ctx.index))
        self.fn = ctx.index.get_function(VTT, "WebVTTWriter._group_cues_by_layout")
        self.wcls = ctx.index.get_class(VTT, "WebVTTWriter")
        self.ncls = ctx.index.get_class("pycaption/base.py", "CaptionNode")
        self.kinds = {k: self.folder.eval_in(self.ncls.module, self.ncls.class_attrs[k]) for k in ("TEXT", "STYLE", "BREAK")}
        self.evaluations = 0

    def node(self, spec):
        k = spec[0]
        if k == "T":
            return Stub("text", {"type_": self.kinds["TEXT"], "content": spec[1], "layout_info": spec[2] if len(spec) > 2 else None,
                                 "start": None}, cls=self.ncls)
        if k == "B":
            return Stub("break", {"type_": self.kinds["BREAK"], "content": None, "layout_info": None, "start": None}, cls=self.ncls)
        if k == "S":
            return Stub("style", {"type_": self.kinds["STYLE"], "start": spec[1], "content": dict(spec[2]),
                                  "layout_info": None}, cls=self.ncls)
        raise ValueError(k)

    def groups(self, specs, styles=None):
        styles = styles or {}
        cs = Stub("caption-set", {}, {"get_style": lambda name: dict(styles.get(name, {}))})
        w = Stub("writer", {}, cls=self.wcls)
        self.evaluations += 1
        try:
            out = self.folder.call_function(self.fn, [[self.node(s) for s in specs], cs], self_value=w)
        except AnalysisError as e:
            raise AnalysisError(f"_group_cues_by_layout cannot be folded on {specs}: {e}")
        if not isinstance(out, list) or not all(isinstance(g, tuple) and len(g) == 2 and isinstance(g[0], str) for g in out):
            raise AnalysisError(f"_group_cues_by_layout folds to an unexpected value: {out!r}")
        return out


def blank_lines(ctx, report, clause):
    """C03: whatever the sequence of text (possibly empty) and break nodes, no cue text has an empty
    line inside it or starts with a line break - exhaustive over all sequences up to length 4."""
    c = Cues(ctx)
    report.covered(c.fn)
    # text, empty text, break, a style node that opens a tag, a style node that writes nothing
    alphabet = [("T", "x"), ("T", ""), ("B",), ("S", True, {"italics": True}), ("S", True, {"color": "red"})]
    bad = []
    for n in range(1, 5):
        for seq in itertools.product(alphabet, repeat=n):
            for text, _ in c.groups(list(seq)):
                lines = text.split("\n")
                if lines and lines[-1] == "":
                    lines = lines[:-1]
                if any(l == "" for l in lines):
                    bad.append({"nodes": ["text" if s[0] == "T" and s[1] else "empty text" if s[0] == "T" else
                                          "break" if s[0] == "B" else "style" for s in seq],
                                "cue_text": text})
    report.check(not bad, "R-BLANKLINE", c.fn,
                 "no sequence of text / empty text / break / style nodes puts an empty line inside a WebVTT cue",
                 {"sequences_folded": c.evaluations, "max_length": 4, "offending": bad[:3],
                  "why": "an empty line ends the cue block: the rest of the caption is lost or read as a new block"}, clause)
    report.count("webvtt_cue_folds", c.evaluations)


def nesting(ctx, report, clause):
    """C11: inline tags opened by a style node are closed in reverse order by the matching end node;
    each of italics / bold / underline maps to its own tag."""
    c = Cues(ctx)
    report.covered(c.fn)
    bad = []
    names = ("italics", "bold", "underline")
    tag_of = {"italics": "i", "bold": "b", "underline": "u"}
    for r in (1, 2, 3):
        for combo in itertools.combinations(names, r):
            style = {k: True for k in combo}
            (text, _), = c.groups([("S", True, style), ("T", "x"), ("S", False, style)]) or [("", None)]
            tags = re.findall(r"<(/?)(\w+)>", text)
            stack, ok = [], True
            for closing, name in tags:
                if not closing:
                    stack.append(name)
                elif not stack or stack.pop() != name:
                    ok = False
            opened = sorted(name for closing, name in tags if not closing)
            if not ok or stack or opened != sorted(tag_of[k] for k in combo) or "x" not in text:
                bad.append({"style": sorted(combo), "cue_text": text})
            # the same span over a line break, over two, and between other text: the tags in the cue text still nest
            for label, seq in (("across a break", [("S", True, style), ("T", "x"), ("B",), ("T", "y"), ("S", False, style)]),
                               ("across two breaks", [("S", True, style), ("T", "x"), ("B",), ("B",), ("T", "y"), ("S", False, style)]),
                               ("between text", [("T", "a"), ("S", True, style), ("T", "x"), ("B",), ("T", "y"), ("S", False, style),
                                                 ("T", "z")])):
                groups = c.groups(seq) or []
                text = "".join(t for t, _ in groups)
                stack, ok = [], True
                for closing, name in re.findall(r"<(/?)(\w+)>", text):
                    if not closing:
                        stack.append(name)
                    elif not stack or stack.pop() != name:
                        ok = False
                if not ok or stack or not all(ch in text for ch in "xy"):
                    bad.append({"style": sorted(combo), "span": label, "cue_text": text})
    # a flag that is present but false opens nothing
    (text, _), = c.groups([("S", True, {"italics": False, "bold": True}), ("T", "x"), ("S", False, {"italics": False, "bold": True})])
    if "<i>" in text or "<b>" not in text:
        bad.append({"style": "italics False, bold True", "cue_text": text})
    # class-resolved style
    (text, _), = c.groups([("S", True, {"class": "k"}), ("T", "x"), ("S", False, {"class": "k"})], styles={"k": {"italics": True}})
    if text != "<i>x</i>":
        bad.append({"style": "class k = italics", "cue_text": text})
    report.check(not bad, "R-ORDER", c.fn, "inline tags are closed in the reverse of the order they are opened in "
                 "(folded on every combination of italics / bold / underline)",
                 {"folds": c.evaluations, "offending": bad[:3]}, clause)


def splitting(ctx, report, clause):
    """C12: a new cue starts exactly when a text node's layout differs from the layout of the text
    before it (also when the new node has none); same layout never splits; text is never dropped."""
    c = Cues(ctx)
    report.covered(c.fn)
    cases = [
        ([("T", "a", "A"), ("T", "b", "B")], [("a", "A"), ("b", "B")], "different layouts -> two cues"),
        ([("T", "a", "A"), ("T", "b", "A")], [("ab", "A")], "same layout -> one cue"),
        ([("T", "a", "A"), ("T", "b", None)], [("a", "A"), ("b", None)], "layout then none -> two cues"),
        ([("T", "a", "A"), ("B",), ("T", "b", "B")], [("a\n", "A"), ("b", "B")], "break between different layouts"),
        ([("T", "a", "A"), ("T", "b", "B"), ("T", "c", "A")], [("a", "A"), ("b", "B"), ("c", "A")], "A B A -> three cues"),
        ([("T", "a", "A"), ("S", True, {"italics": True}), ("T", "b", "A"), ("S", False, {"italics": True})],
         [("a<i>b</i>", "A")], "style nodes do not split"),
    ]
    bad = []
    for specs, want, label in cases:
        got = c.groups(specs)
        if got != want:
            bad.append({"case": label, "groups": got, "required": want})
    report.check(not bad, "R-COMPLETE-CASES", c.fn,
                 "a new cue starts whenever a text node's layout differs from the current one (also when it has none)",
                 {"cases_folded": len(cases), "offending": bad[:3]}, clause)
