"""C04 - read text equals authored text: entities decoded once, markup stripped.

Decided clauses (DESIGN.md 4/C04):
 1 R-DECODE-ONCE SAMI two-stage parse: every reference whose character is a markup hazard is handed to the second
                 parser still encoded; entity names are looked up verbatim; WebVTT decodes '&amp;' last; the DFXP
                 &apos; workaround cannot create a reference
 2 R-CAPTURE-TOTAL the text-capture regex of DFXP and SAMI keeps everything after the indentation (must cross '\\n');
                 a text node is skipped only when nothing matched
 3 R-LANG-EQ     WebVTT tag patterns against the reference tag language; numeric character references
 4 breaks        br -> BREAK (DFXP, SAMI), '|' (MicroDVD), one BREAK between text lines (SRT, WebVTT)
NOT decided: html.parser / lxml entity tables and recovery, arbitrary nestings, whitespace collapsing.
"""
import ast
import re

from ..core.tree import AnalysisError
from ..core.constfold import Folder
from ..core.astutil import walk_no_nested, call_name, short, src, closure_src, closure_nodes, resolve_local, calls_in_eval_order, resolve_callee
from ..engines import regexlang as R
from ..engines.regexuse import regex_uses
from ..spec import hazards as H
from .c02 import resolve_local

SAMI = "pycaption/sami.py"
DFXP = "pycaption/dfxp/base.py"
VTT = "pycaption/webvtt.py"


def run(ctx, report):
    folder = ctx.memo("folder", lambda: Folder(ctx.index))
    report.structural_section("SAMI decode once (handlers on a stub parser)", "R-DOC-TEXT on the generated SAMI documents (every reference "
                              "spelling of the pool, alone, between words and next to a break)", sami_decode, ctx, report)
    report.section("WebVTT decode table", webvtt_decode, ctx, report, folder)
    report.section("DFXP apos workaround", dfxp_apos, ctx, report)
    report.section("capture regex", capture, ctx, report, folder)
    report.section("WebVTT tags", webvtt_tags, ctx, report, folder)
    report.structural_section("breaks (shape)", "R-DOC-TEXT on the generated DFXP and SAMI documents (br = line break, in every position)",
                              breaks, ctx, report)
    from . import reader_doc_fold, srt_doc_fold, dfxp_reader_fold
    report.section("generated DFXP documents", dfxp_reader_fold.run, ctx, report, {
        "cues": ("R-DOC-CUES", "1"), "text": ("R-DOC-TEXT", "1")})
    from . import sami_reader_fold
    report.section("generated SAMI documents", sami_reader_fold.run, ctx, report, {
        "cues": ("R-DOC-CUES", "1"), "text": ("R-DOC-TEXT", "1")})
    report.section("generated documents", reader_doc_fold.run, ctx, report, {
        "cues": ("R-DOC-CUES", "3", "no payload line is taken for structure: one caption per cue"),
        "text": ("R-DOC-TEXT", "3", "each caption's lines are what a conformant consumer displays (references decoded "
                                    "once, tags handled, look-alike lines kept)")})
    report.section("generated SRT documents", srt_doc_fold.run, ctx, report, {
        "cues": ("R-DOC-CUES", "2", "SRT: a blank-holding separator line still separates cues (no cue absorbs the next)"),
        "text": ("R-DOC-TEXT", "2", "SRT: each caption holds the text lines of its own cue, line breaks as breaks")})
    report.not_decided += ["entity tables and error recovery of html.parser / lxml", "inline style handling over "
                           "arbitrary nestings", "whitespace collapsing"]


def sami_decode(ctx, report):
    he = ctx.index.get_function(SAMI, "SAMIParser.handle_entityref")
    hc = ctx.index.get_function(SAMI, "SAMIParser.handle_charref")
    hd = ctx.index.get_function(SAMI, "SAMIParser.handle_data")
    for f in (he, hc, hd):
        report.covered(f)
    # the three handlers are folded (constant evaluation of their source) on a stub parser
    from ..core.constfold import Folder, Stub
    import html.entities
    folder = ctx.memo("folder", lambda: Folder(ctx.index))
    pcls = ctx.index.get_class(SAMI, "SAMIParser")
    table = dict(html.entities.name2codepoint)
    table.setdefault("apos", 0x27)

    def run_handler(fn, arg):
        stub = Stub("parser", {"sami": "", "name2codepoint": dict(table), "last_element": "x", "queue": [], "line": ""},
                    cls=pcls)
        try:
            folder.call_function(fn, [arg], self_value=stub)
        except AnalysisError as e:
            raise AnalysisError(f"{fn.qualname} cannot be folded on {arg!r}: {e}")
        return stub.attrs["sami"]
    got = {n: run_handler(he, n) for n in ("amp", "lt", "gt", "nbsp", "eacute", "Eacute", "bogus")}
    ok = got["amp"] == "&amp;" and got["lt"] == "&lt;" and got["gt"] in ("&gt;", ">")
    report.check(ok, "R-DECODE-ONCE", he,
                 "named references of markup characters are handed to the second parser still encoded",
                 {"folded": {k: got[k] for k in ("amp", "lt", "gt")},
                  "why": "BeautifulSoup parses the re-serialised text again: a decoded '&' or '<' is markup there, so "
                         "'&amp;lt;' would read as '<'"}, "1")
    ok = got["nbsp"] == "\xa0" and got["eacute"] == "\xe9" and got["Eacute"] == "\xc9" and got["bogus"].startswith("&bogus")
    report.check(ok, "R-VERBATIM-KEY", he, "the entity name is looked up exactly as written (entity names are case sensitive)",
                 {"folded": {k: got[k] for k in ("nbsp", "eacute", "Eacute", "bogus")}}, "1")
    # charref: a decoded number that denotes a markup character is re-encoded
    gotc = {n: run_handler(hc, n) for n in ("38", "x26", "X26", "60", "x3c", "62", "233", "xE9", "65")}
    bad = {k: v for k, v in gotc.items() if (k in ("38", "x26", "X26") and v != "&amp;") or (k in ("60", "x3c") and v != "&lt;")
           or (k == "62" and v not in ("&gt;", ">")) or (k in ("233", "xE9") and v != "\xe9") or (k == "65" and v != "A")}
    report.check(not bad, "R-DECODE-ONCE", hc, "a decoded numeric reference is escaped before it is re-serialised",
                 {"folded": gotc, "wrong": bad, "why": "&#38; / &#60; denote '&' and '<': appended raw they become markup for the "
                                                      "second parser ('&#38;lt;' reads as '<', '&#60;i&#62;' becomes an italics tag)"}, "1")
    gd = run_handler(hd, "a &amp; <b")
    report.check(gd == "a &amp; <b", "R-DECODE-ONCE", hd, "plain data is re-serialised verbatim", {"folded": gd}, "1")
    # handle_data passes the source text through unchanged (convert_charrefs is off)
    ok = any(isinstance(n, ast.AugAssign) and src(n.target) == "self.sami" and src(n.value) == hd.params[1]
             for n in walk_no_nested(hd.node))
    init = ctx.index.get_function(SAMI, "SAMIParser.__init__")
    off = any(isinstance(n, ast.Assign) and src(n.targets[0]) == "self.convert_charrefs" and
              isinstance(n.value, ast.Constant) and n.value.value is False for n in walk_no_nested(init.node))
    report.check(ok and off, "R-DECODE-ONCE", hd, "plain data is re-serialised verbatim and html.parser does not decode "
                 "references behind the handlers' back (convert_charrefs = False)", {"verbatim": ok, "convert_charrefs_off": off}, "1")


def webvtt_decode(ctx, report, folder):
    fn = ctx.index.get_function(VTT, "WebVTTReader._decode")
    report.covered(fn)
    from ..engines.strsteps import replace_steps
    steps = [(a_, b_) for k, a_, b_, _ in replace_steps(fn, folder, "_decode") if k == "replace"]
    ents = [(a, b) for a, b in steps if isinstance(a, str) and a.startswith("&")]
    if len(ents) < 3:
        raise AnalysisError(f"_decode: only {len(ents)} entity replacements found (floor 3)")
    names = [a for a, _ in ents]
    ok_last = names[-1] == "&amp;" and names.count("&amp;") == 1
    report.check(ok_last, "R-ESCAPE-TABLE", fn, "'&amp;' is decoded last, so a decoded '&' can never start another entity",
                 {"order": names, "why": "decoding &amp; first turns '&amp;lt;' into '&lt;' and then into '<'"}, "1")
    want = {"&lt;": "<", "&gt;": ">", "&amp;": "&", "&nbsp;": " ", "&lrm;": "‎", "&rlm;": "‏"}
    wrong = {a: b for a, b in ents if a in want and want[a] != b}
    missing = sorted(set(["&lt;", "&gt;", "&amp;"]) - set(names))
    report.check(not wrong and not missing, "R-TABLE-REF", fn, "each named reference decodes to its own character",
                 {"wrong": wrong, "missing": missing}, "1")
    # inverse of the writer's encoder on the hazard set
    enc = ctx.index.get_function(VTT, "WebVTTWriter._encode_illegal_characters")
    esteps = [(a_, b_) for k, a_, b_, _ in replace_steps(enc, folder, "WebVTT encoder") if k == "replace"]
    bad = []
    for hazard in ("&", "<", "-->", "a&b<c-->d &lt; &amp;"):
        t = hazard
        for a, b in esteps:
            t = t.replace(a, b)
        for a, b in steps:
            if isinstance(a, str) and a.startswith("&"):
                t = t.replace(a, b)
        if t != hazard:
            bad.append((hazard, t))
    report.check(not bad, "R-TABLE-INVERSE", fn, "decoding undoes the writer's encoding on the hazard set (& < -->)",
                 {"mismatches": bad, "encoder": esteps}, "1")
    has_numeric = any(isinstance(n, ast.Call) and call_name(n) in ("re.sub", "html.unescape", "unescape") or
                      (isinstance(n, ast.Constant) and isinstance(n.value, str) and "&#" in n.value)
                      for n in walk_no_nested(fn.node))
    report.check(has_numeric, "R-COMPLETE-CASES", fn, "numeric character references (&#38; &#x26;) are decoded",
                 {"why": "the WebVTT cue text grammar allows numeric references; without a handler they stay literal"}, "3")


def dfxp_apos(ctx, report):
    fn = ctx.index.get_function(DFXP, "LayoutAwareDFXPParser.__init__")
    report.covered(fn)
    reps = [n for n in walk_no_nested(fn.node) if isinstance(n, ast.Call) and isinstance(n.func, ast.Attribute)
            and n.func.attr == "replace" and len(n.args) == 2 and all(isinstance(a, ast.Constant) for a in n.args)]
    ok = len(reps) == 1 and reps[0].args[0].value == "&apos;" and "&" not in reps[0].args[1].value \
        and reps[0].args[1].value == "'"
    sup = [n for n in walk_no_nested(fn.node) if isinstance(n, ast.Call) and src(n.func) == "super().__init__"]
    order = bool(reps) and bool(sup) and reps[0].lineno < sup[0].lineno
    report.check(ok and order, "R-DECODE-ONCE", fn, "the &apos; workaround runs before parsing and cannot create a reference",
                 [short(r) for r in reps], "1")


def capture(ctx, report, folder):
    sites = [(DFXP, "DFXPReader._convert_tag_to_node"), (SAMI, "SAMIReader._translate_tag")]
    for path, q in sites:
        fn = ctx.index.get_function(path, q, inline=True)
        report.covered(fn)
        uses = [u for u in regex_uses(fn, folder) if u.method in ("search", "match", "fullmatch")]
        if len(uses) != 1:
            raise AnalysisError(f"{q}: expected one text-capture regex")
        u = uses[0]
        alpha = R.Alphabet(list("ab \t\n\r") + ["é", " "])
        lang = R.lang_of_pattern(u.pattern, alpha, u.mode, u.flags)
        total = R.lang_of_pattern(u.pattern + r"\s*\Z", alpha, u.mode, u.flags)
        w = R.difference_witness(lang, total)
        report.check(w is None, "R-CAPTURE-TOTAL", fn, "capture-pattern",
                     {"pattern": u.pattern, "applied_with": u.method,
                      "obligation": "every text the pattern matches is captured up to its end (modulo trailing blanks)",
                      **({"shortest_text_cut_short": w} if w is not None else {})}, "2")
        # second obligation, on the texts the recorded finding does NOT cover: an optional indentation
        # prefix (starts with a line break, all white space) followed by ONE line of text
        ws = [c for c in alpha.chars if c.isspace()]
        line = [c for c in alpha.chars if c not in "\n\r"]
        single = R.Lang(R.cat(R.opt(R.cat(R.plus(R.cset("\n\r")), R.star(R.cset("".join(ws))))),
                              R.plus(R.cset("".join(line)))), alpha, "full")
        w1 = R.difference_witness(single, total)
        report.check(w1 is None, "R-CAPTURE-TOTAL", fn, "capture-pattern on single-line text after an indentation prefix",
                     {"pattern": u.pattern,
                      "obligation": "(line breaks + white space)? followed by one line of text: matched, captured to its end",
                      **({"shortest_text_lost_or_cut": w1} if w1 is not None else {})}, "2")
        # the only skip condition is "no match": every condition that dominates the creation of the text node is
        # the dispatch on the node kind or the pattern's own result
        from ..core.astutil import enclosing_conjuncts
        creates = [st for st in ast.walk(fn.node) if isinstance(st, (ast.Assign, ast.Expr, ast.Return, ast.AugAssign))
                   and any(isinstance(c, ast.Call) and (call_name(c) or "").endswith("create_text") for c in ast.walk(st))]
        if len(creates) != 1:
            raise AnalysisError(f"{q}: expected one statement creating the text node, found {len(creates)}")
        conds = enclosing_conjuncts(fn, creates[0], index=ctx.index)
        if conds is None:
            raise AnalysisError(f"{q}: guard of the text node not found")
        par = fn.params[1] if len(fn.params) > 1 else "tag"
        extra, saw_kind, saw_match = [], False, False
        for c in conds:
            core = c[5:-1] if c.startswith("not (") and c.endswith(")") else c
            if re.fullmatch(rf"isinstance\({par}, NavigableString\)", c):
                saw_kind = True
            elif re.fullmatch(r".*\.(search|match|fullmatch)\([^()]*\)", core) and not c.startswith("not ("):
                saw_match = True            # the pattern's own result, nothing derived from it
            elif c.startswith("not (") and re.fullmatch(rf"{par}\.name (==|in) .*", core):
                pass            # an earlier branch of the dispatch on element names
            else:
                extra.append(c)
        ok = saw_kind and saw_match and not extra
        report.check(ok, "R-GUARD", (fn, creates[0]), "a text node is dropped only when the pattern matched nothing",
                     {"conditions_for_creating_the_text_node": conds, "unexpected": extra,
                      "why": None if ok else "text of the document is left out under a condition other than 'nothing to capture'"}, "2")


def webvtt_tags(ctx, report, folder):
    other = folder.value("pycaption.webvtt", "OTHER_SPAN_PATTERN")
    voice = folder.value("pycaption.webvtt", "VOICE_SPAN_PATTERN")
    alpha = R.Alphabet(list("</>.: \t-bcivulangrty0159xé"))
    D = R.cset("0159")
    name = R.alt(*[R.lit(n) for n in ("c", "i", "b", "u", "v", "ruby", "rt", "lang")])
    any_ = R.cset(alpha.set - {">"})
    ts = R.cat(R.plus(D), R.lit(":"), R.rep(D, 2, 2), R.opt(R.cat(R.lit(":"), R.rep(D, 2, 2))), R.lit("."), R.rep(D, 3, 3))
    tag = R.cat(R.lit("<"), R.opt(R.lit("/")), R.alt(R.cat(name, R.opt(R.cat(R.cset(". \t"), R.star(any_)))), ts), R.lit(">"))
    ref = R.Lang(R.cat(R.star(R.cset(alpha.set)), tag, R.star(R.cset(alpha.set))), alpha, "full", "reference tag language")
    lang = R.lang_of_pattern(other.pattern, alpha, "search", other.flags)
    w = R.difference_witness(lang, ref)
    where = (VTT, "<module>")
    report.check(w is None, "R-LANG-EQ", where, "OTHER_SPAN_PATTERN strips only WebVTT tags",
                 {"pattern": other.pattern, **({"shortest_string_stripped_that_contains_no_webvtt_tag": w} if w is not None else {}),
                  "obligation": "unknown tags stay literal"}, "3")
    w2 = R.difference_witness(ref, lang)
    report.check(w2 is None, "R-LANG-EQ", where, "every WebVTT tag (c i b u v ruby rt lang, timestamps, classes, annotations) is stripped",
                 {"shortest_tag_kept": w2} if w2 is not None else None, "3")
    # voice pattern: <v[.class]* name>
    vl = R.lang_of_pattern(voice.pattern, alpha, "search", voice.flags)
    # (WebVTT: classes are '.' followed by characters other than white space, '.' and '>'; the annotation is separated by
    # one or more blanks or tabs)
    vref = R.cat(R.lit("<v"), R.star(R.cat(R.lit("."), R.plus(R.cset(alpha.set - set(" \t.>"))))), R.plus(R.cset(" \t")), R.star(any_),
                 R.lit(">"))
    vr = R.Lang(R.cat(R.star(R.cset(alpha.set)), vref, R.star(R.cset(alpha.set))), alpha, "full")
    w3 = R.equal_witness(vl, vr)
    report.check(w3 is None, "R-LANG-EQ", where, "VOICE_SPAN_PATTERN == '<v' ('.' class)* (blank | tab)+ annotation '>'",
                 {"witness": w3} if w3 else None, "3")
    dec = ctx.index.get_function(VTT, "WebVTTReader._decode")
    from ..engines.strsteps import replace_steps
    # every rewriting step of _decode and of the private helpers it calls, in execution order
    allsteps = []
    for k, a_, b_, n in replace_steps(dec, folder, "_decode"):
        allsteps.append((k, a_, b_))
    for c in calls_in_eval_order(dec.node):
        h = resolve_callee(ctx.index, dec, c)
        if h is not None and h is not dec and h.name.startswith("_"):
            pos = [i for i, x in enumerate(calls_in_eval_order(dec.node)) if x is c][0]
            sub_steps = [(k, a_, b_) for k, a_, b_, _ in replace_steps(h, folder, h.qualname)]
            before = sum(1 for k, a_, b_, n in replace_steps(dec, folder, "_decode")
                         if [i for i, x in enumerate(calls_in_eval_order(dec.node)) if x is n][0] < pos)
            allsteps[before:before] = sub_steps
            report.covered(h)
    subs = [(a_, b_) for k, a_, b_ in allsteps if k == "sub"]
    if len(subs) < 2:
        raise AnalysisError(f"WebVTTReader._decode: expected two pattern substitutions, found {len(subs)}")
    ok = subs[:2] == [("VOICE_SPAN_PATTERN", "'\\\\2: '"), ("OTHER_SPAN_PATTERN", "''")]
    report.check(ok, "R-ORDER", dec, "voice spans become 'Name: ' before the remaining tags are stripped", subs, "3")
    # ... and references are decoded only AFTER the tags are gone: '&lt;i&gt;' is the text '<i>', not a tag
    order = [k for k, a_, b_ in allsteps]
    if "replace" not in order:
        raise AnalysisError("WebVTTReader._decode: no reference replacement found")
    ok = order.index("replace") > max(i for i, k in enumerate(order) if k == "sub")
    report.check(ok, "R-ORDER", dec, "character references are decoded after the tags are stripped (decoded '<' is text, never markup)",
                 {"operations_in_order": order}, "3")


def breaks(ctx, report):
    for path, q, acc in ((DFXP, "DFXPReader._convert_tag_to_node", "self.nodes"), (SAMI, "SAMIReader._translate_tag", "self.line")):
        fn = ctx.index.get_function(path, q)
        found = False
        for n in walk_no_nested(fn.node):
            if isinstance(n, ast.If) and src(n.test) == "tag.name == 'br'":
                found = any(isinstance(c, ast.Call) and (call_name(c) or "").endswith("create_break") for c in walk_no_nested(n))
        report.recognise(found, "R-COMPLETE-CASES", fn, "a br element becomes a BREAK node", None, "4")
    md = ctx.index.get_function("pycaption/microdvd.py", "MicroDVDReader.read")
    t = closure_src(ctx.index, md)
    ok = ".split('|')" in t and "create_break()" in t and ".pop()" in t
    report.check(ok, "R-COMPLETE-CASES", md, "'|' separates lines: one BREAK between pieces, none at the end", None, "4")
    for path, q in (("pycaption/srt.py", "SRTReader.read"), (VTT, "WebVTTReader._parse")):
        fn = ctx.index.get_function(path, q)
        t = closure_src(ctx.index, fn)
        ok = "create_break()" in t and "create_text(" in t
        report.check(ok, "R-COMPLETE-CASES", fn, "consecutive text lines are separated by one BREAK node", None, "4")
