"""C11 - italic, bold and underline spans survive conversion and stay balanced.

Decided clauses (DESIGN.md 4/C11):
 1 R-TABLE-INVERSE style vocabularies of writers and readers (SAMI css, SAMI tags, DFXP attributes, WebVTT tags)
 2 R-SPAN-TYPESTATE (b) span markup is balanced for flat spans: DFXPWriter, LegacyDFXPWriter, SAMIWriter
 3 nesting      WebVTT closes inline tags in the reverse order of opening (node level and cue level)
 4 SCC          nodes leave an InstructionNodeCreator only through _format_italics; every pass that can create an
                italics-on node precedes the closing pass; the repositioning pass keeps its tracker consistent
 5 purity       style resolution mutates no class-/module-level object; every inline declaration is translated
NOT decided: that the same characters are italic after a round trip.
"""
import ast
import re

from ..core.tree import AnalysisError
from ..core.astutil import walk_no_nested, call_name, short, src, closure_nodes, resolve_local, resolve_callee, closure
from ..engines import structural as S
from ..engines.typestate import span_table, check_flat, check_alternation
from . import c11_tables

SAMI = "pycaption/sami.py"
DFXP = "pycaption/dfxp/base.py"
EXTRAS = "pycaption/dfxp/extras.py"
VTT = "pycaption/webvtt.py"
SPC = "pycaption/scc/specialized_collections.py"


def run(ctx, report):
    report.section("tables", c11_tables.run, ctx, report)
    report.section("span typestate", spans, ctx, report)
    report.section("WebVTT nesting", webvtt_nesting, ctx, report)
    report.section("SCC italics pipeline", scc_pipeline, ctx, report)
    report.section("purity", purity, ctx, report)
    from . import markup_writer_fold
    report.section("written documents", markup_writer_fold.run, ctx, report, {"italics": ("R-DOC-STYLE", "1")})
    from . import dfxp_reader_fold
    report.section("generated DFXP documents", dfxp_reader_fold.run, ctx, report, {
        "italics": ("R-DOC-STYLE", "1"), "roundtrip": ("R-ROUNDTRIP", "1")})
    report.not_decided += ["that the same characters are italic / bold / underlined after a round trip",
                           "spans across breaks and layout groups"]


def spans(ctx, report):
    for path, q in ((DFXP, "DFXPWriter._recreate_span"), (EXTRAS, "LegacyDFXPWriter._recreate_span")):
        fn = ctx.index.get_function(path, q)
        report.covered(fn)
        check_flat(report, fn, span_table(ctx, fn), "2")
    ls = ctx.index.get_function(SAMI, "SAMIWriter._recreate_line_style")
    sp = ctx.index.get_function(SAMI, "SAMIWriter._recreate_span")
    report.covered(ls)
    report.covered(sp)
    table = span_table(ctx, ls, inline={"self._recreate_span": sp})
    check_flat(report, ls, table, "2")
    # every _recreate_text starts a caption with the flag it ended the previous one with: reset per write (C09)


def webvtt_nesting(ctx, report):
    from . import webvtt_cues
    webvtt_cues.nesting(ctx, report, "3")
    cv = ctx.index.get_function(VTT, "WebVTTWriter._convert_caption")
    report.covered(cv)
    cue_level_nesting(ctx, report, cv)


def _flatten_add(e):
    if isinstance(e, ast.BinOp) and isinstance(e.op, ast.Add):
        return _flatten_add(e.left) + _flatten_add(e.right)
    return [e]


def cue_level_nesting(ctx, report, cv):
    """Cue-level style tags: in the routine that turns each style key into its (open, close)
    pair, the opening is appended to one accumulator and the closing is PREPENDED to another;
    the cue text is emitted between the two accumulators."""
    owner = pair = None
    g = ctx.index.get_function(VTT, "WebVTTWriter._group_cues_by_layout")
    inline_scope = {f.key for f in closure(ctx.index, g)}
    for f2, n in closure_nodes(ctx.index, cv, (ast.Assign,)):
        if isinstance(n.value, ast.Call) and (call_name(n.value) or "").endswith("_convert_style_to_text_tag") \
                and len(n.targets) == 1 and isinstance(n.targets[0], ast.Name) \
                and f2.key not in inline_scope:      # the inline level is judged above
            if owner is not None:
                raise AnalysisError("WebVTT cue-level tags: more than one routine builds cue-level tags")
            owner, pair = f2, n.targets[0].id
    if owner is None:
        raise AnalysisError("WebVTT cue-level tags: the (open, close) pair of a style is not bound to a name")
    report.covered(owner)
    acc = {}      # index in the pair -> (accumulator text, 'append' | 'prepend')
    for n in walk_no_nested(owner.node):
        tgt = val = None
        if isinstance(n, ast.AugAssign) and isinstance(n.op, ast.Add):
            tgt, ops = src(n.target), [ast.parse(src(n.target), mode="eval").body] + _flatten_add(n.value)
        elif isinstance(n, ast.Assign) and len(n.targets) == 1 and isinstance(n.value, ast.BinOp):
            tgt, ops = src(n.targets[0]), _flatten_add(n.value)
        else:
            continue
        texts = [src(o) for o in ops]
        for i in (0, 1):
            if f"{pair}[{i}]" in texts and tgt in texts and len(texts) == 2:
                acc[i] = (tgt, "append" if texts.index(tgt) == 0 else "prepend")
    if set(acc) != {0, 1}:
        raise AnalysisError(f"WebVTT cue-level tags: accumulation of {pair}[0] / {pair}[1] not recognised ({acc})")
    ok = acc[0][1] == "append" and acc[1][1] == "prepend" and acc[0][0] != acc[1][0]
    report.check(ok, "R-ORDER", owner, "cue-level tags: openings appended, closings prepended (proper nesting)",
                 {"opening": acc[0], "closing": acc[1]}, "3")
    names = [acc[0][0], acc[1][0]]
    if owner is not cv:
        rets = [n.value for n in walk_no_nested(owner.node) if isinstance(n, ast.Return) and n.value is not None]
        if len(rets) != 1 or not isinstance(rets[0], ast.Tuple) or sorted(src(e) for e in rets[0].elts) != sorted(names):
            raise AnalysisError("WebVTT cue-level tags: the helper does not return its two accumulators")
        pos = [[src(e) for e in rets[0].elts].index(nm) for nm in names]
        names = None
        for n in walk_no_nested(cv.node):
            if isinstance(n, ast.Assign) and isinstance(n.value, ast.Call) and isinstance(n.targets[0], ast.Tuple) \
                    and (call_name(n.value) or "").split(".")[-1] == owner.name:
                el = [src(e) for e in n.targets[0].elts]
                names = [el[pos[0]], el[pos[1]]]
        if names is None:
            raise AnalysisError("WebVTT cue-level tags: the helper's result is not unpacked in _convert_caption")
    found = None
    for n in walk_no_nested(cv.node):
        if isinstance(n, ast.BinOp) and isinstance(n.op, ast.Add):
            texts = [src(o) for o in _flatten_add(n)]
            if names[0] in texts and names[1] in texts:
                found = texts
                break
    if found is None:
        raise AnalysisError("WebVTT cue-level tags: no emission uses both accumulators")
    i, j = found.index(names[0]), found.index(names[1])
    report.check(j == i + 2, "R-ORDER", cv, "cue text sits between the cue-level opening and closing tags",
                 {"emitted": found}, "3")


def scc_pipeline(ctx, report):
    it = ctx.index.get_function(SPC, "InstructionNodeCreator.__iter__")
    report.covered(it)
    ok = src(it.node.body[-1]) == "return iter(_format_italics(self._collection))"
    report.check(ok, "R-MUSTCALL", it, "nodes are handed out only after _format_italics", src(it.node.body[-1]), "4")
    cs = ctx.index.get_function(SPC, "CaptionCreator.create_and_store")
    loops = [n for n in walk_no_nested(cs.node) if isinstance(n, ast.For) and "node_buffer" in src(n.iter)]
    ok = len(loops) == 1 and src(loops[0].iter) == "node_buffer"
    direct = [src(n) for n in walk_no_nested(cs.node) if isinstance(n, ast.Attribute) and n.attr == "_collection"
              and "node_buffer" in src(n.value)]
    report.check(ok and not direct, "R-MUSTCALL", cs, "captions are built by iterating the buffer (never from its raw node list)",
                 {"raw_accesses": direct}, "4")
    # the pipeline itself: folded on every node sequence up to length 4 (quick) / 6 (thorough)
    from . import scc_italics
    scc_italics.run(ctx, report, "4", 6 if ctx.tier == "thorough" else 4)


def purity(ctx, report):
    S.rule_globalmut_direct(report, ctx.index, clause="5")
    fn = ctx.index.get_function(SAMI, "SAMIReader._translate_style")
    report.covered(fn)
    loops = [n for n in walk_no_nested(fn.node) if isinstance(n, ast.For)]
    if len(loops) != 1:
        raise AnalysisError("_translate_style: declaration loop not found")
    cut = [type(n).__name__.lower() for n in walk_no_nested(loops[0]) if isinstance(n, (ast.Break, ast.Return))]
    report.check(not cut, "R-LOOP", (fn, loops[0]), "every declaration of an inline style attribute is translated (no early exit)",
                 {"early_exits": cut}, "5")
