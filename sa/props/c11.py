"""C11 - italic, bold and underline spans survive conversion and stay balanced.

Decided clauses (DESIGN.md 4/C11):
 1 R-TABLE-INVERSE style vocabularies of writers and readers (SAMI css, SAMI tags, DFXP attributes, WebVTT tags)
 2 R-SPAN-TYPESTATE (b) span markup is balanced for flat spans: DFXPWriter, LegacyDFXPWriter, SAMIWriter
 3 nesting      WebVTT closes inline tags in the reverse order of opening (node level and cue level)
 4 SCC          nodes leave an InstructionNodeCreator only through _format_italics; every pass that can create an
                italics-on node precedes the closing pass; the repositioning pass keeps its tracker consistent
 5 purity       style resolution mutates no class-/module-level object; every inline declaration is translated
NOT decided: that the same characters are italic after a round trip.
"""
import ast
import re

from ..core.tree import AnalysisError
from ..core.astutil import walk_no_nested, call_name, short, src, closure_nodes, resolve_local, resolve_callee, closure
from ..engines import structural as S
from ..engines.typestate import span_table, check_flat, check_alternation
from . import c11_tables

SAMI = "pycaption/sami.py"
DFXP = "pycaption/dfxp/base.py"
EXTRAS = "pycaption/dfxp/extras.py"
VTT = "pycaption/webvtt.py"
SPC = "pycaption/scc/specialized_collections.py"


def run(ctx, report):
    report.section("tables", c11_tables.run, ctx, report)
    report.section("span typestate", spans, ctx, report)
    report.section("WebVTT nesting", webvtt_nesting, ctx, report)
    report.section("SAMI style attribute round trip", sami_style_roundtrip, ctx, report)
    report.section("SCC italics pipeline", scc_pipeline, ctx, report)
    report.section("purity", purity, ctx, report)
    from . import markup_writer_fold
    report.section("written documents", markup_writer_fold.run, ctx, report, {"italics": ("R-DOC-STYLE", "1")})
    from . import webvtt_layout_fold
    report.section("WebVTT captions split by layout", webvtt_layout_fold.run_cues, ctx, report, {"split": ("R-E2E", "2")})
    from . import dfxp_reader_fold
    report.section("generated DFXP documents", dfxp_reader_fold.run, ctx, report, {
        "italics": ("R-DOC-STYLE", "1"), "roundtrip": ("R-ROUNDTRIP", "1"), "to_sami": ("R-CHAIN", "1")})
    from . import scc_e2e_fold
    report.section("SCC reader end to end (pop-on)", scc_e2e_fold.run, ctx, report, {
        "italics": ("R-E2E", "4", "italic nodes are balanced and cover exactly the characters sent while italics were on")})
    report.section("SCC reader end to end (roll-up)", scc_e2e_fold.run_part, ctx, report, "rolling", {
        "balanced": ("R-E2E", "4", "every caption of roll-up streams with mid-row italics has balanced style nodes, with and without "
                                   "roll-up simulation, the roll-up code sent on every row or once")})
    from . import sami_reader_fold
    report.section("generated SAMI documents", sami_reader_fold.run, ctx, report, {
        "styles": ("R-DOC-STYLE", "1"), "balanced": ("R-SPAN-TYPESTATE", "2"), "roundtrip": ("R-ROUNDTRIP", "1"),
        "convert": ("R-CHAIN", "1")})
    report.not_decided += ["that the same characters are italic / bold / underlined after a round trip beyond the folded sets",
                           "spans across breaks and layout groups"]


def spans(ctx, report):
    from . import markup_writer_fold
    markup_writer_fold.span_sequences(ctx, report, "R-SPAN-TYPESTATE", "2")


def sami_style_roundtrip(ctx, report):
    """the inline style attribute SAMIWriter writes for a span, handed to SAMIReader's own attribute translation: every
    subset of italics / bold / underline comes back as the same subset (writer and reader folded back to back on the
    attribute string; the SAMI parser in between only carries the string)"""
    import itertools
    from . import markup_writer_fold as MW
    from ..core.constfold import Stub
    W = MW.World(ctx)
    rd = ctx.index.get_class(SAMI, "SAMIReader")
    ta = rd.find_method("_translate_attrs")
    if ta is None:
        raise AnalysisError("SAMIReader._translate_attrs not found")
    report.covered(ta)
    keys = ("italics", "bold", "underline")
    bad = []
    n = 0
    for k in range(1, 4):
        for sub in itertools.combinations(keys, k):
            n += 1
            content = {x: True for x in sub}
            nodes = [W.ev("CaptionNode.create_style(True, c)", c=dict(content)), W.ev("CaptionNode.create_text('x')"),
                     W.ev("CaptionNode.create_style(False, c)", c=dict(content))]
            cs = W.ev("CaptionSet({'en-US': CaptionList([Caption(1000000, 2000000, n)])})", n=nodes)
            try:
                fn, doc, _ = W.write(SAMI, "SAMIWriter", cs)
            except (MW.FoldRaise, AnalysisError) as e:
                raise AnalysisError(f"SAMIWriter.write cannot be folded on a styled span: {e}")
            m = re.search(r'<span[^>]*\sstyle="([^"]*)"', doc)
            if not m:
                bad.append({"style": list(sub), "why": "no span with a style attribute was written", "paragraph": doc[-200:]})
                continue
            me = Stub("reader", {"line": [], "first_alignment": None}, cls=rd)
            try:
                got = W.F.call_function(ta, [Stub("tag", {"attrs": {"style": m.group(1)}, "name": "span"})], {}, self_value=me)
            except MW.FoldRaise as e:
                bad.append({"style": list(sub), "attribute": m.group(1), "reader_raises": e.exc_name})
                continue
            except AnalysisError as e:
                raise AnalysisError(f"SAMIReader._translate_attrs cannot be folded on {m.group(1)!r}: {e}")
            back = sorted(x for x in keys if isinstance(got, dict) and got.get(x))
            if back != sorted(sub):
                bad.append({"style": list(sub), "attribute_written": m.group(1), "read_back": back})
    report.check(not bad, "R-TABLE-INVERSE", ta, "SAMI: the style attribute written for every subset of italics / bold / underline "
                 "is read back as the same subset", {"subsets": n, "mismatches": bad[:3]}, "1")


def webvtt_nesting(ctx, report):
    from . import webvtt_cues
    webvtt_cues.nesting(ctx, report, "3")
    cv = ctx.index.get_function(VTT, "WebVTTWriter._convert_caption")
    report.covered(cv)
    cue_level_nesting(ctx, report, cv)


def _flatten_add(e):
    if isinstance(e, ast.BinOp) and isinstance(e.op, ast.Add):
        return _flatten_add(e.left) + _flatten_add(e.right)
    return [e]


def cue_level_nesting(ctx, report, cv):
    """Cue-level style tags, folded: WebVTTWriter.write on a caption whose own style switches on every subset of
    italics / bold / underline; the payload line must open with the tags, close them in reverse order (proper nesting),
    and hold the cue text in between."""
    import itertools
    from . import markup_writer_fold as MW
    W = MW.World(ctx)
    tag = {"italics": "i", "bold": "b", "underline": "u"}
    bad = []
    n = 0
    fn = None
    for k in range(0, 4):
        for keys in itertools.combinations(sorted(tag), k):
            n += 1
            spec = {"langs": {"en-US": [(1000000, 2000000, ["cue text"], None, {kk: True for kk in keys})]}}
            try:
                fn, doc, _ = W.write(VTT, "WebVTTWriter", W.caption_set(spec))
            except MW.FoldRaise as e:
                bad.append({"caption_style": list(keys), "raises": e.exc_name or str(e)})
                continue
            except AnalysisError as e:
                raise AnalysisError(f"WebVTTWriter.write cannot be folded on a caption with its own style: {e}")
            lines = doc.split("\n")
            payload = next((lines[i_ + 1] for i_, l in enumerate(lines) if "-->" in l and i_ + 1 < len(lines)), "")
            m = re.fullmatch(r"((?:<[ibu]>)*)cue text((?:</[ibu]>)*)", payload)
            if not m:
                bad.append({"caption_style": list(keys), "payload": payload, "why": "cue text is not between opening and closing tags"})
                continue
            opened = re.findall(r"<([ibu])>", m.group(1))
            closed = re.findall(r"</([ibu])>", m.group(2))
            if sorted(opened) != sorted(tag[k_] for k_ in keys) or closed != opened[::-1]:
                bad.append({"caption_style": list(keys), "payload": payload,
                            "why": "tags do not match the style / are not closed in reverse order"})
    where = fn if fn is not None else cv
    report.check(not bad, "R-ORDER", where, "cue-level tags: one pair per style that is on, closed in reverse order, cue text in between",
                 {"captions_folded": n, "mismatches": bad[:3]}, "3")


def scc_pipeline(ctx, report):
    it = ctx.index.get_function(SPC, "InstructionNodeCreator.__iter__")
    report.covered(it)
    ok = src(it.node.body[-1]) == "return iter(_format_italics(self._collection))"
    report.check(ok, "R-MUSTCALL", it, "nodes are handed out only after _format_italics", src(it.node.body[-1]), "4")
    cs = ctx.index.get_function(SPC, "CaptionCreator.create_and_store")
    loops = [n for n in walk_no_nested(cs.node) if isinstance(n, ast.For) and "node_buffer" in src(n.iter)]
    ok = len(loops) == 1 and src(loops[0].iter) == "node_buffer"
    direct = [src(n) for n in walk_no_nested(cs.node) if isinstance(n, ast.Attribute) and n.attr == "_collection"
              and "node_buffer" in src(n.value)]
    report.check(ok and not direct, "R-MUSTCALL", cs, "captions are built by iterating the buffer (never from its raw node list)",
                 {"raw_accesses": direct}, "4")
    # the pipeline itself: folded on every node sequence up to length 4 (quick) / 6 (thorough)
    from . import scc_italics
    scc_italics.run(ctx, report, "4", 6 if ctx.tier == "thorough" else 4)


def purity(ctx, report):
    S.rule_globalmut_direct(report, ctx.index, clause="5")
    fn = ctx.index.get_function(SAMI, "SAMIReader._translate_style")
    report.covered(fn)
    loops = [n for n in walk_no_nested(fn.node) if isinstance(n, ast.For)]
    if len(loops) != 1:
        raise AnalysisError("_translate_style: declaration loop not found")
    cut = [type(n).__name__.lower() for n in walk_no_nested(loops[0]) if isinstance(n, (ast.Break, ast.Return))]
    report.check(not cut, "R-LOOP", (fn, loops[0]), "every declaration of an inline style attribute is translated (no early exit)",
                 {"early_exits": cut}, "5")
