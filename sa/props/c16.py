"""C16 - roll-up and paint-on SCC text is conserved and ordered (thin claim: pairing and ordering).

Decided clauses (DESIGN.md 4/C16):
 1 R-PAIR     the active buffer is never discarded unsaved and never stored without being discarded
              (no loss, no duplication), except by the explicit erase command
 2 R-MUSTCALL read() flushes the implicit buffers after the last line and before collecting the captions;
              the flush observer is registered before the first mode switch; emptiness looks at every node
 3 R-ORDER    _roll_up: store(old time) -> new time -> end previous captions at the new time (force=True)
 4 R-LOOP     every trailing caption without an end gets one
NOT decided: that each character appears exactly once and in order, row grouping, start < end.
"""
import ast
import re

from ..core.tree import AnalysisError
from ..core.astutil import walk_no_nested, call_name, short, src
from ..engines import pathrules as PR
from ..spec import cea608
from .c05 import _literals_tested

SCC = "pycaption/scc/__init__.py"
SPC = "pycaption/scc/specialized_collections.py"


def classify(n):
    if isinstance(n, ast.Call):
        cn = call_name(n) or ""
        if cn.endswith("create_and_store") and n.args and src(n.args[0]) == "self.buffer":
            return "STORE"
        if cn == "PopOnCue" and any("self.buffer" in src(k.value) for k in n.keywords) or \
                (cn == "PopOnCue" and n.args and "self.buffer" in src(n.args[0])):
            return "STORE"
        if cn == "self._roll_up":
            return "ROLLUP"     # stores and discards internally (checked on its own)
        if cn.endswith("roll_rows.append") and n.args and src(n.args[0]) == "self.buffer":
            return "KEEP"
    if isinstance(n, ast.Assign) and any(src(t) == "self.buffer" for t in n.targets):
        v = src(n.value)
        if v.endswith("new_creator()"):
            return "DISCARD"
        if "from_list(self.roll_rows)" in v:
            return "REBIND"
        return "DISCARD?"
    return None


LABELS = {"STORE", "ROLLUP", "KEEP", "DISCARD", "REBIND", "DISCARD?"}


def pair_ok(events, erase=False):
    """None if the path respects the pairing, else a reason"""
    stored = False
    kept = False
    for e in PR.flat(events):
        if e == "STORE":
            if stored:
                return "the same buffer is stored twice"
            stored = True
        elif e == "KEEP":
            kept = True
        elif e == "REBIND":
            if not kept:
                return "buffer rebound to the roll-up window without being kept in it"
            kept = False
            stored = False
        elif e in ("DISCARD", "DISCARD?"):
            if not stored and not erase:
                return "buffer discarded without being stored"
            stored = False
        elif e == "ROLLUP":
            stored = False
    if stored:
        return "buffer stored but not discarded afterwards (its text would be emitted again)"
    if kept:
        return "buffer put into the roll-up window but the active buffer was not rebuilt from the window"
    return None


def run(ctx, report):
    report.section("pairing", pairing, ctx, report)
    report.section("flush", flush, ctx, report)
    report.section("roll-up order", rollup_order, ctx, report)
    report.section("final ends", final_ends, ctx, report)
    # text conservation needs the duplicate filter to drop exactly the second copy of a doubled code
    # (positioning obligations of the same automaton belong to C05)
    from . import c05_doubling
    report.section("doubling automaton", c05_doubling.run, ctx, report, "1", ("O-TAB",))
    # "each caption ends exactly when the next one begins": the list the captions are stored in
    from . import scc_timing_list
    report.section("caption list timing", scc_timing_list.run, ctx, report, "3")
    from . import scc_e2e_fold
    report.section("end to end", scc_e2e_fold.run_part, ctx, report, "rolling", {
        "once": ("R-E2E", "1", "every transmitted row comes back exactly once, whole, in transmission order (roll-up 2/3/4 and "
                               "paint-on; single and doubled codes, also with a line break inside a doubled pair; from 00:00:00)"),
        "order": ("R-E2E", "3", "captions are ordered by start, each with start < end"),
        "chain": ("R-E2E", "3", "each caption ends exactly when the next one begins"),
    })
    report.not_decided += ["that each transmitted character appears exactly once and in order beyond the generated programs",
                           "row grouping, start < end for arbitrary streams"]


def _helper_resolver(ctx, cls_path=SCC, cls_name="SCCReader", skip=("_roll_up",)):
    """statement-level self._helper() calls of the reader are spliced into the caller's paths
    (except _roll_up, which is judged on its own and summarised as ROLLUP)"""
    from ..core.astutil import resolve_callee
    cls = ctx.index.get_class(cls_path, cls_name)

    def resolver(call):
        cn = call_name(call) or ""
        if not cn.startswith("self._") or cn.split(".")[-1] in skip:
            return None
        m = cls.find_method(cn.split(".")[-1])
        if m is None:
            return None
        if not any(classify(x) for x in walk_no_nested(m.node)):
            return None
        return m
    return resolver


def pairing(ctx, report):
    with PR.inlining(_helper_resolver(ctx)):
        _pairing(ctx, report)


def _pairing(ctx, report):
    idx = ctx.index
    n_paths = 0
    # _roll_up and the paint branch of the flush
    for q in ("SCCReader._roll_up",):
        fn = idx.get_function(SCC, q)
        report.covered(fn)
        paths = PR.paths_of_block(fn.node.body, classify)
        bad = [{"events": PR.flat(ev), "why": pair_ok(ev)} for ev, end in paths if pair_ok(ev)]
        n_paths += len(paths)
        report.check(not bad, "R-PAIR", fn, "every path stores the buffer exactly once and then discards it",
                     {"paths": len(paths), "offending": bad[:3]}, "1")
    fl = idx.get_function(SCC, "SCCReader._flush_implicit_buffers")
    report.covered(fl)
    paths = PR.paths_of_block(fl.node.body, classify)
    bad = [{"events": PR.flat(ev), "why": pair_ok(ev)} for ev, end in paths if pair_ok(ev)]
    n_paths += len(paths)
    report.check(not bad, "R-PAIR", fl, "a mode switch stores the implicit buffer and empties it",
                 {"paths": len(paths), "offending": bad[:3]}, "1")
    # each dispatch branch of _translate_command
    tc = idx.get_function(SCC, "SCCReader._translate_command")
    report.covered(tc)
    wordname = tc.params[1]
    node = next((s for s in tc.node.body if isinstance(s, ast.If)), None)
    code_of = {v: k for k, v in cea608.CONTROL.items()}
    seen = 0
    while node is not None:
        lits = _literals_tested(node.test, wordname)
        names = sorted(code_of.get(l, l) for l in lits)
        erase = names == ["ENM"]
        paths = PR.paths_of_block(node.body, classify)
        n_paths += len(paths)
        bad = [{"events": PR.flat(ev), "why": pair_ok(ev, erase)} for ev, end in paths if pair_ok(ev, erase)]
        if any(e in LABELS for ev, _ in paths for e in PR.flat(ev)):
            seen += 1
            report.check(not bad, "R-PAIR", (tc, node), f"branch {'/'.join(names)}: buffer stored before it is discarded"
                         + (" (erase command: discards on purpose)" if erase else ""),
                         {"paths": len(paths), "offending": bad[:3]}, "1")
        node = node.orelse[0] if len(node.orelse) == 1 and isinstance(node.orelse[0], ast.If) else None
    if seen < 4:
        raise AnalysisError(f"_translate_command: only {seen} buffer-handling branches found (floor 4)")
    report.count("paths_checked", n_paths)
    # who else assigns self.buffer?
    cls = idx.get_class(SCC, "SCCReader")
    res = _helper_resolver(ctx)
    inlined = set()
    for q in ("_roll_up", "_flush_implicit_buffers", "_translate_command"):
        m0 = cls.find_method(q)
        for c in walk_no_nested(m0.node):
            if isinstance(c, ast.Call) and res(c) is not None:
                inlined.add(res(c).name)
    others = []
    for name, m in cls.methods.items():
        if name in ("_roll_up", "_flush_implicit_buffers", "_translate_command", "__init__", "_reset"):
            continue
        if name in inlined:
            continue       # judged as part of every caller's paths
        for n in walk_no_nested(m.node):
            if classify(n) in ("DISCARD", "DISCARD?", "REBIND"):
                others.append(f"{name}:{n.lineno}")
    report.check(not others, "R-WHO-WRITES", (SCC, "SCCReader"), "the active buffer is replaced only in the analysed handlers",
                 {"other_sites": others}, "1")


def flush(ctx, report):
    idx = ctx.index
    rd = idx.get_function(SCC, "SCCReader.read")
    report.covered(rd)
    cl = PR.call_classifier({"_translate_line": "LINE", "_flush_implicit_buffers": "FLUSH", "get_all": "COLLECT"})
    paths = PR.paths_of_block(rd.node.body, cl)
    bad = []
    for ev, end in paths:
        f = PR.flat(ev)
        if "COLLECT" in f:
            i = f.index("COLLECT")
            if "FLUSH" not in f[:i]:
                bad.append(f)
            elif "LINE" in f and max(j for j, e in enumerate(f) if e == "LINE") > f.index("FLUSH"):
                bad.append(f)
    report.check(not bad and any("COLLECT" in PR.flat(ev) for ev, _ in paths), "R-MUSTCALL", rd,
                 "implicit buffers are flushed after the last line and before the captions are collected",
                 {"offending_paths": bad[:2]}, "2")
    calls = [c for c in walk_no_nested(rd.node) if isinstance(c, ast.Call) and call_name(c) == "self._flush_implicit_buffers"]
    ok = len(calls) == 1 and [src(a) for a in calls[0].args] == ["self.buffer_dict.active_key"]
    report.check(ok, "R-FIELD-ROUTING", rd, "the final flush is for the currently active mode", [short(c) for c in calls], "2")
    # observer registered before the first set_active
    cls = idx.get_class(SCC, "SCCReader")
    init = cls.methods.get("_reset") or cls.methods.get("__init__")
    init = idx.get_function(SCC, init.qualname, inline=True)
    report.covered(init)
    cl2 = PR.call_classifier({"add_change_observer": "OBSERVE", "set_active": "ACTIVATE"})
    paths = PR.paths_of_block(init.node.body, cl2)
    ok = all("OBSERVE" in PR.flat(ev) and "ACTIVATE" in PR.flat(ev) and
             PR.flat(ev).index("OBSERVE") < PR.flat(ev).index("ACTIVATE") for ev, _ in paths)
    reg = [c for c in walk_no_nested(init.node) if isinstance(c, ast.Call) and (call_name(c) or "").endswith("add_change_observer")]
    ok2 = len(reg) == 1 and src(reg[0].args[0]) == "self._flush_implicit_buffers"
    report.check(ok and ok2, "R-MUSTCALL", init, "the flush observer is registered before the first mode is activated",
                 [short(c) for c in reg], "2")
    report.section("mode-switch notification", notifying_dict, ctx, report)


def notifying_dict(ctx, report):
    """NotifyingDict folded: a recording observer (a host callable that also looks at the dictionary when it is called)
    registered on a dictionary with two keys; set_active over every sequence of <= 3 keys: the observer is called exactly
    when the key changes, with (old key, new key), while the active key is still the old one; afterwards the active key is
    the new one; an unknown key raises"""
    import itertools
    from ..core.constfold import Folder, FoldRaise, Stub
    idx = ctx.index
    sa = idx.get_function(SPC, "NotifyingDict.set_active")
    report.covered(sa)
    bad = []
    n = 0
    for seq in itertools.chain.from_iterable(itertools.product(("a", "b"), repeat=k) for k in (1, 2, 3)):
        n += 1
        F = Folder(idx)
        F.object_classes = "*"
        try:
            nd = F.eval_in("pycaption.scc.specialized_collections", ast.parse("NotifyingDict(a=1, b=2)", mode="eval").body, {})
            calls = []

            def observer(old, new, nd=nd, calls=calls):
                calls.append((old if isinstance(old, str) else None, new, nd.attrs.get("active_key") if isinstance(
                    nd.attrs.get("active_key"), str) else None))
            F.call_function(nd.cls.find_method("add_change_observer"), [observer], {}, self_value=nd)
            want, cur = [], None
            for k in seq:
                F.call_function(sa, [k], {}, self_value=nd)
                if k != cur:
                    want.append((cur, k, cur))
                cur = k
                if nd.attrs.get("active_key") != k:
                    bad.append({"keys": list(seq), "active_key_after": str(nd.attrs.get("active_key")), "required": k})
                    break
            if calls != want:
                bad.append({"keys": list(seq), "observer_calls (old, new, active key at the time)": calls, "required": want})
            try:
                F.call_function(sa, ["zz"], {}, self_value=nd)
                bad.append({"keys": list(seq), "why": "set_active of a key that is not present does not raise"})
            except FoldRaise:
                pass
        except FoldRaise as e:
            bad.append({"keys": list(seq), "raises": f"{e.exc_name}: {e}"[:100]})
        except AnalysisError as e:
            raise AnalysisError(f"NotifyingDict cannot be folded: {e}")
    report.check(not bad, "R-ORDER", sa, "observers are told (old key, new key) exactly when the active key changes, and see the OLD "
                 "key still active", {"key_sequences": n, "mismatches": bad[:3]}, "2")
    # emptiness: folded on buffers built by command sequences
    from . import scc_buffer
    scc_buffer.emptiness(ctx, report, "2")


def rollup_order(ctx, report):
    fn = ctx.index.get_function(SCC, "SCCReader._roll_up", inline=True)
    report.covered(fn)

    def cl(n):
        c = classify(n)
        if c:
            return c
        if isinstance(n, ast.Assign) and any(src(t) == "self.time" for t in n.targets):
            return "NEWTIME" if src(n.value).endswith("get_time()") else "TIME?"
        if isinstance(n, ast.Call) and (call_name(n) or "").endswith("correct_last_timing"):
            return "ENDPREV"
        return None
    paths = PR.paths_of_block(fn.node.body, cl)
    bad = []
    for ev, end in paths:
        f = PR.flat(ev)
        need = ["STORE", "NEWTIME", "ENDPREV"]
        if not all(x in f for x in need):
            bad.append({"events": f, "why": "store / new time / end-previous missing"})
            continue
        if not (f.index("STORE") < f.index("NEWTIME") < f.index("ENDPREV")):
            bad.append({"events": f, "why": "the stored caption must start at the OLD time; previous captions end at the NEW time"})
        if f.index("STORE") > f.index("DISCARD"):
            bad.append({"events": f, "why": "discard before store"})
    report.check(not bad, "R-ORDER", fn, "store(old time) -> time = get_time() -> correct_last_timing(new time)",
                 {"paths": len(paths), "offending": bad[:3]}, "3")
    st = [c for c in walk_no_nested(fn.node) if isinstance(c, ast.Call) and (call_name(c) or "").endswith("create_and_store")]
    ok = len(st) == 1 and [src(a) for a in st[0].args] == ["self.buffer", "self.time"]
    report.check(ok, "R-FIELD-ROUTING", fn, "the stored caption starts at self.time (the time of the previous roll)",
                 [short(c) for c in st], "3")
    ce = [c for c in walk_no_nested(fn.node) if isinstance(c, ast.Call) and (call_name(c) or "").endswith("correct_last_timing")]
    ok = len(ce) == 1 and src(ce[0].args[0]) == "self.time" and \
        any(k.arg == "force" and isinstance(k.value, ast.Constant) and k.value.value is True for k in ce[0].keywords)
    report.check(ok, "R-FIELD-ROUTING", fn, "previous captions are forced to end at the new time", [short(c) for c in ce], "3")
    cf = ctx.index.get_function(SPC, "CaptionCreator.correct_last_timing")
    report.covered(cf)
    st = [n for n in walk_no_nested(cf.node) if isinstance(n, ast.Assign) and src(n.targets[0]).endswith(".end")]
    ok = len(st) == 1 and src(st[0].value) == cf.params[1]
    loop = [n for n in walk_no_nested(cf.node) if isinstance(n, ast.For) and st and st[0] in n.body]
    report.check(ok and len(loop) == 1, "R-AFFINE", cf, "each caption still being edited ends exactly at the given time",
                 [short(s) for s in st], "3")


def final_ends(ctx, report):
    from . import scc_read_fold
    scc_read_fold.run(ctx, report, {
        "final": ("R-LOOP", "4", "every trailing caption without an end gets one (walk back until a caption has an end); "
                                 "read() applies the rule to the list it returns"),
    })
