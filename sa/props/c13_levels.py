"""C13 clause 4 - R-LEVEL-COVERAGE: every layout level a writer consumes has
passed _relativize_and_fit_to_screen; WebVTT never prints a size that has not
passed as_percentage_of or the is_relative() guard."""
import ast
import re

from ..core.tree import AnalysisError
from ..core.astutil import walk_no_nested, call_name, short, src, resolve_local

LEVELS = ("set", "language", "caption", "node")


def classify_read(node, setnames, capnames, nodenames):
    """layout level read by an expression node, or None"""
    if isinstance(node, ast.Attribute) and node.attr == "layout_info" and isinstance(node.ctx, ast.Load):
        base = src(node.value)
        if base in setnames or base.endswith("caption_set") or base == "self._caption_set":
            return "set"
        if base in capnames:
            return "caption"
        if base in nodenames:
            return "node"
        return f"?{base}"
    if isinstance(node, ast.Call) and isinstance(node.func, ast.Attribute) and node.func.attr == "get_layout_info":
        return "language"
    return None


ATOMIC = ("_relativize_and_fit_to_screen", "_recreate_stylesheet", "_recreate_p_tag", "_recreate_style_block",
          "_recreate_styling_tag", "_recreate_style", "_recreate_span", "_recreate_text", "_recreate_sync", "_recreate_blank_tag")


def sanitised_levels(fn):
    """levels re-assigned through _relativize_and_fit_to_screen in `fn`:
    level -> (line, value is the level's own layout, guards the statement sits under)"""
    from ..core.astutil import enclosing_conjuncts
    out = {}
    for n in walk_no_nested(fn.node):
        if isinstance(n, ast.Assign) and len(n.targets) == 1 and "_relativize_and_fit_to_screen(" in src(n.value):
            t = n.targets[0]
            if isinstance(t, ast.Attribute) and t.attr == "layout_info":
                base = src(t.value)
                arg = re.search(r"_relativize_and_fit_to_screen\(\s*(.+?)\s*\)$", src(n.value), re.S)
                same = arg is not None and arg.group(1).replace(" ", "") == src(t).replace(" ", "")
                lvl = "set" if "caption_set" in base or base in ("captions", "captions_set") else \
                    "caption" if "caption" in base else "node" if "node" in base else f"?{base}"
                out[lvl] = (n.lineno, same, enclosing_conjuncts(fn, n) or [])
        if isinstance(n, ast.Expr) and isinstance(n.value, ast.Call) and isinstance(n.value.func, ast.Attribute) \
                and n.value.func.attr == "set_layout_info" \
                and any("_relativize_and_fit_to_screen(" in src(resolve_local(fn, a)) for a in n.value.args):
            # (the sanitised value may be bound to a local first)
            inner = [resolve_local(fn, a) for a in n.value.args if "_relativize_and_fit_to_screen(" in src(resolve_local(fn, a))][0]
            same = "get_layout_info(" in src(inner)
            out["language"] = (n.lineno, same, enclosing_conjuncts(fn, n) or [])
    return out


def _foreign_guards(guards, lvl):
    """conditions a sanitising statement sits under, other than 'this level has a layout':
    under any other condition some layouts of that level are written unsanitised"""
    return [g for g in guards if "layout_info" not in g]


def run(ctx, report):
    idx = ctx.index
    # --- DFXP: consumption = what RegionCreator reads ------------------------
    rc_collect = idx.get_function("pycaption/dfxp/base.py", "RegionCreator._collect_unique_regions", inline=True)
    rc_pos = idx.get_function("pycaption/dfxp/base.py", "RegionCreator.get_positioning_info", inline=True)
    consumed = {}
    for fn in (rc_collect, rc_pos):
        report.covered(fn)
        for n in walk_no_nested(fn.node):
            lvl = classify_read(n, {"caption_set"}, {"caption"}, {"node", "caption_node"})
            if lvl:
                consumed.setdefault(lvl, []).append(f"{fn.qualname}:{n.lineno}")
    unknown = [k for k in consumed if k.startswith("?")]
    if unknown:
        raise AnalysisError(f"RegionCreator reads layout from an unrecognised holder: {unknown}")
    if set(consumed) != set(LEVELS):
        raise AnalysisError(f"RegionCreator consumption levels {sorted(consumed)} (expected all four)")
    wr = idx.get_function("pycaption/dfxp/base.py", "DFXPWriter.write", inline=True, keep=ATOMIC)
    report.covered(wr)
    san = sanitised_levels(wr)
    rc_line = None
    for n in walk_no_nested(wr.node):
        if isinstance(n, ast.Assign) and src(n.targets[0]) == "self.region_creator":
            rc_line = n.lineno
    if rc_line is None:
        raise AnalysisError("DFXPWriter.write: creation of the region creator not found")
    for lvl in LEVELS:
        hit = san.get(lvl)
        ok = hit is not None and hit[1] and hit[0] < rc_line and not _foreign_guards(hit[2], lvl)
        report.check(ok, "R-LEVEL-COVERAGE", wr, f"level:{lvl}",
                     {"consumed_at": consumed[lvl][:3],
                      "sanitised": None if hit is None else {"line": hit[0], "reassigns_same_slot": hit[1],
                                                             "only_under": hit[2]},
                      "regions_collected_at_line": rc_line,
                      "why": None if ok else f"the {lvl}-level layout reaches the region table without passing "
                                             "_relativize_and_fit_to_screen"}, "4")
    # --- SAMI ------------------------------------------------------------------
    sw = idx.get_function("pycaption/sami.py", "SAMIWriter.write", inline=True, keep=ATOMIC)
    report.covered(sw)
    san = sanitised_levels(sw)
    cons = {}
    for q in ("SAMIWriter._recreate_stylesheet", "SAMIWriter._recreate_style_block", "SAMIWriter._recreate_p_tag"):
        f = idx.get_function("pycaption/sami.py", q)
        report.covered(f)
        for n in walk_no_nested(f.node):
            lvl = classify_read(n, {"caption_set"}, {"caption"}, {"node"})
            if lvl and not lvl.startswith("?"):
                cons.setdefault(lvl, []).append(f"{q}:{n.lineno}")
    style_line = None
    for n in walk_no_nested(sw.node):
        if isinstance(n, ast.Call) and call_name(n) == "self._recreate_stylesheet":
            style_line = n.lineno
    if style_line is None:
        raise AnalysisError("SAMIWriter.write: stylesheet creation not found")
    for lvl in sorted(cons):
        hit = san.get(lvl)
        ok = hit is not None and hit[1] and hit[0] < style_line and not _foreign_guards(hit[2], lvl)
        report.check(ok, "R-LEVEL-COVERAGE", sw, f"level:{lvl}",
                     {"consumed_at": cons[lvl][:3], "sanitised": hit,
                      "why": None if ok else f"the {lvl}-level layout of some captions reaches the output without "
                                             "passing _relativize_and_fit_to_screen"}, "4")
    report.info("R-LEVEL-COVERAGE", sw, "sibling writers side by side",
                {"SAMIWriter sanitises": sorted(san), "DFXPWriter sanitises": sorted(sanitised_levels(wr))}, "4")
    # --- WebVTT ----------------------------------------------------------------
    cp = idx.get_function("pycaption/webvtt.py", "WebVTTWriter._convert_positioning")
    report.covered(cp)
    rel_calls = [c for c in walk_no_nested(cp.node) if isinstance(c, ast.Call) and isinstance(c.func, ast.Attribute)
                 and c.func.attr == "as_percentage_of"]
    ok = len(rel_calls) == 1 and [src(a) for a in rel_calls[0].args] == ["self.video_width", "self.video_height"]
    report.check(ok, "R-FIELD-ROUTING", cp, "WebVTT relativizes with the writer's video width and height",
                 [short(c) for c in rel_calls], "4")
    lay = cp.params[1]
    # must-pass rule on feasible paths (boolean locals and repeated tests tracked)
    from ..engines.pathrules import feasible_paths

    def classify(n):
        if isinstance(n, ast.Call) and isinstance(n.func, ast.Attribute) and n.func.attr == "as_percentage_of" \
                and src(n.func.value) == lay:
            return "REL"
        return None
    paths = feasible_paths(cp, classify, normalise=lambda t: src(resolve_local(cp, t)))
    if not paths:
        raise AnalysisError("WebVTTWriter._convert_positioning: no feasible path extracted")
    IS_REL, RELATIVIZE = f"{lay}.is_relative()", "self.relativize"
    bad, bad_drop, n_emit = [], [], 0
    for items in paths:
        tests = {it[1]: it[2] for it in items if it[0] == "test"}
        end = [it for it in items if it[0] == "end"][-1]
        empty = end[1] == "return" and isinstance(end[2].value, ast.Constant) and end[2].value.value == ""
        passthrough = tests.get(f"{lay}.webvtt_positioning") is True or tests.get(lay) is False
        rel = any(it[0] == "ev" and it[1] == "REL" for it in items)
        if tests.get(RELATIVIZE) is False and tests.get(IS_REL) is False and not empty and end[1] != "raise":
            bad_drop.append(sorted(f"{k}={v}" for k, v in tests.items()))
        if empty or passthrough or end[1] == "raise":
            continue
        n_emit += 1
        if not (rel or tests.get(IS_REL) is True):
            bad.append(sorted(f"{k}={v}" for k, v in tests.items()))
    if n_emit == 0:
        raise AnalysisError("WebVTTWriter._convert_positioning: no path reaches the cue settings")
    report.check(not bad, "R-MUST-SANITISE", cp,
                 "every size that reaches a cue setting passed as_percentage_of or the is_relative() guard",
                 {"feasible_paths": len(paths), "paths_reaching_cue_settings": n_emit,
                  "paths_without_relativization_or_guard": bad[:4]}, "4")
    seen_cfg = any(it[0] == "test" and it[1] == RELATIVIZE for items in paths for it in items)
    if not seen_cfg:
        raise AnalysisError("WebVTTWriter._convert_positioning: the relativize switch is not tested")
    report.check(not bad_drop, "R-MUST-SANITISE", cp, "absolute layout with relativize off: no positioning is written",
                 {"paths_that_still_write_settings": bad_drop[:4]}, "4")


def _enclosing_of_stmt(fnnode, target):
    res = []

    def visit(body, guards):
        for st in body:
            if st is target:
                res.extend(guards)
                return True
            if isinstance(st, ast.If):
                t = src(st.test)
                if visit(st.body, guards + [t]):
                    return True
                if visit(st.orelse, guards + [f"not ({t})"]):
                    return True
            elif isinstance(st, (ast.For, ast.While, ast.With, ast.Try)):
                for blk in (getattr(st, "body", []), getattr(st, "orelse", []), getattr(st, "finalbody", [])):
                    if visit(blk, guards):
                        return True
        return False
    visit(fnnode.body, [])
    return res
