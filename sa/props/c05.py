"""C05 - SCC pop-on decoding reproduces the CEA-608 screen.

Decided: the code tables against an independent CEA-608 generator (clause 1),
well-formedness/disjointness of the word classes the dispatcher relies on
(clause 2), the row/column -> percentage map (clause 3), tab offsets (clause 4),
and the control-code dispatch table (clause 5).
NOT decided: the decoder's behaviour over command sequences.
"""
import ast
import itertools

from ..core.tree import AnalysisError
from ..core.constfold import Folder
from ..core.astutil import walk_no_nested, call_name, short, src
from ..engines.tables import HEX2, HEX4, parity_ok, require_dict
from ..spec import cea608

CONST = "pycaption.scc.constants"
CPATH = "pycaption/scc/constants.py"
# deliberate deviations of the repository from the standard's tables
CHAR_DEVIATIONS = {
    "7f": ("", "solid block is dropped on purpose (no counterpart in the output formats)"),
    "80": ("", "0x00 with parity: the filler byte that pads a one-character word"),
}


def run(ctx, report):
    folder = ctx.memo("folder", lambda: Folder(ctx.index))
    if CONST not in ctx.index.modules:
        raise AnalysisError("anchor vanished: pycaption/scc/constants.py")
    where = (CPATH, "<module>")
    chars = require_dict(folder.value(CONST, "CHARACTERS"), "CHARACTERS", 90)
    special = require_dict(folder.value(CONST, "SPECIAL_CHARS"), "SPECIAL_CHARS", 16)
    extended = require_dict(folder.value(CONST, "EXTENDED_CHARS"), "EXTENDED_CHARS", 60)
    pacs = require_dict(folder.value(CONST, "PAC_BYTES_TO_POSITIONING_MAP"), "PAC_BYTES_TO_POSITIONING_MAP", 8)
    tabs = require_dict(folder.value(CONST, "PAC_TAB_OFFSET_COMMANDS"), "PAC_TAB_OFFSET_COMMANDS", 3)
    commands = require_dict(folder.value(CONST, "COMMANDS"), "COMMANDS", 400)

    # clause 1: tables against the reference ---------------------------------
    ref_basic = cea608.basic_characters()
    for key in sorted(set(chars) | set(ref_basic)):
        got = chars.get(key)
        if key in CHAR_DEVIATIONS and got == CHAR_DEVIATIONS[key][0]:
            report.ok("R-TABLE-REF", where, f"CHARACTERS[{key!r}]", {"deviation": CHAR_DEVIATIONS[key][1]}, "1")
            continue
        if key not in ref_basic:
            report.violation("R-TABLE-REF", where, f"CHARACTERS[{key!r}]",
                             {"found": got, "why": "not a basic-character byte (0x20-0x7f with odd parity)"}, "1")
        elif got is None:
            report.violation("R-TABLE-REF", where, f"CHARACTERS[{key!r}]",
                             {"found": None, "required": sorted(ref_basic[key]), "why": "entry missing"}, "1")
        else:
            report.check(got in ref_basic[key], "R-TABLE-REF", where, f"CHARACTERS[{key!r}]",
                         {"found": got, "required": sorted(ref_basic[key])}, "1")
    for name, table, ref in (("SPECIAL_CHARS", special, cea608.special_characters()),
                             ("EXTENDED_CHARS", extended, cea608.extended_characters())):
        for key in sorted(set(table) | set(ref)):
            got = table.get(key)
            if key not in ref:
                report.violation("R-TABLE-REF", where, f"{name}[{key!r}]",
                                 {"found": got, "why": "not a code of this character set"}, "1")
            elif got is None:
                report.violation("R-TABLE-REF", where, f"{name}[{key!r}]",
                                 {"required": sorted(ref[key]), "why": "entry missing"}, "1")
            else:
                report.check(got in ref[key], "R-TABLE-REF", where, f"{name}[{key!r}]",
                             {"found": got, "required": sorted(ref[key])}, "1")
    ref_pac = cea608.pac_table()
    n_ref = sum(len(v) for v in ref_pac.values())
    if n_ref != 480:
        raise AnalysisError("reference PAC generator does not yield 480 codes")
    bad = []
    missing = []
    extra_ok = []
    for hb in sorted(set(pacs) | set(ref_pac)):
        row = pacs.get(hb, {})
        if not isinstance(row, dict):
            raise AnalysisError("PAC map is not a dict of dicts")
        for lb in sorted(set(row) | set(ref_pac.get(hb, {}))):
            got = row.get(lb)
            want = ref_pac.get(hb, {}).get(lb)
            if want is None:
                alt = cea608.pac_for_7bit(hb, lb)
                if alt is not None and tuple(got) == alt:
                    extra_ok.append(hb + lb)
                else:
                    bad.append({"code": hb + lb, "found": got, "reference_for_7bit_value": alt})
            elif got is None:
                missing.append(hb + lb)
            elif tuple(got) != want:
                bad.append({"code": hb + lb, "found": got, "required": want})
    for b in bad:
        report.violation("R-TABLE-REF", where, f"PAC_BYTES_TO_POSITIONING_MAP[{b['code']}]", b, "1")
    for m in missing:
        report.violation("R-TABLE-REF", where, f"PAC_BYTES_TO_POSITIONING_MAP[{m}]",
                         {"why": "preamble address code missing", "required": ref_pac[m[:2]][m[2:]]}, "1")
    report.check(not bad and not missing, "R-TABLE-REF", where,
                 "PAC_BYTES_TO_POSITIONING_MAP agrees with the 480 reference address codes",
                 {"reference_codes": n_ref, "table_codes": sum(len(v) for v in pacs.values()),
                  "extra_codes_consistent_with_their_7bit_value": extra_ok}, "1")
    report.count("pac_codes_compared", n_ref)
    # every address code also SETS A STYLE (CEA-608: a PAC ends italics and underline unless it says otherwise): the reader
    # closes an open italics span on the codes of STYLE_SETTING_COMMANDS, which is derived from the label table - so every one
    # of the 480 address codes has to be in it, an italic one (attribute value 7) as italic, every other one as non-italic
    labels = require_dict(folder.value(CONST, "COMMAND_LABELS"), "COMMAND_LABELS", 400)
    styles = require_dict(folder.value(CONST, "STYLE_SETTING_COMMANDS"), "STYLE_SETTING_COMMANDS", 100)
    italic_cmds = require_dict(folder.value(CONST, "ITALICS_COMMANDS"), "ITALICS_COMMANDS", 10)
    odd_keys = sorted(k for k in labels if not HEX4.match(k))
    report.check(not odd_keys, "R-TABLE-KEYS", where, "every key of COMMAND_LABELS is a four-hex-digit code word",
                 {"ill_formed": odd_keys} if odd_keys else None, "2")
    unstyled, misfiled = [], []
    for hb, row in ref_pac.items():
        for lb in row:
            w_ = hb + lb
            italic = ((int(lb, 16) & 0x1E) >> 1) == 7
            if w_ not in styles:
                unstyled.append(w_)
            elif italic != (w_ in italic_cmds):
                misfiled.append({"code": w_, "italic_by_its_bits": italic, "listed_as_italic": w_ in italic_cmds})
    report.check(not unstyled and not misfiled, "R-TABLE-REF", where,
                 "every one of the 480 address codes is a style-setting command (so that it ends an open italics span), italic exactly "
                 "when its attribute bits say so", {"address_codes_missing_from_STYLE_SETTING_COMMANDS": sorted(unstyled),
                                                    "wrong_class": misfiled[:5]}, "1")
    report.check(tabs == cea608.TAB_OFFSETS, "R-TABLE-REF", where, "PAC_TAB_OFFSET_COMMANDS",
                 {"found": tabs, "required": cea608.TAB_OFFSETS}, "4")

    # clause 2: well-formed keys, disjoint classes -------------------------------
    illformed = [k for k in chars if not HEX2.match(k)] + \
                [k for t in (special, extended, tabs) for k in t if not HEX4.match(k)] + \
                [hb for hb in pacs if not HEX2.match(hb)] + \
                [hb + lb for hb, r in pacs.items() for lb in r if not HEX2.match(lb)]
    report.check(not illformed, "R-TABLE-KEYS", where, "table keys are lower-case hex of the right width",
                 {"ill_formed": illformed} if illformed else None, "2")
    pac_words = {hb + lb for hb, r in pacs.items() for lb in r}
    classes = {"COMMANDS": set(commands), "PAC": pac_words, "SPECIAL_CHARS": set(special),
               "EXTENDED_CHARS": set(extended)}
    # _translate_word tests (COMMANDS or PAC) first, then SPECIAL, then EXTENDED, then two basic characters
    order = ["COMMANDS", "PAC", "SPECIAL_CHARS", "EXTENDED_CHARS"]
    for i, a in enumerate(order):
        for b in order[i + 1:]:
            if {a, b} == {"COMMANDS", "PAC"}:
                continue  # tested together (`word in COMMANDS or _is_pac_command(word)`)
            inter = sorted(classes[a] & classes[b])
            report.check(not inter, "R-TABLE-DISJOINT", where, f"{a} and {b} are disjoint",
                         {"shadowed_codes": inter} if inter else None, "2")
    two_chars = sorted(w for c in order for w in classes[c]
                       if HEX4.match(w) and w[:2] in chars and w[2:] in chars and (chars[w[:2]] or chars[w[2:]]))
    report.check(not two_chars, "R-TABLE-DISJOINT", where,
                 "no control/special/extended code is also a pair of basic characters",
                 {"ambiguous": two_chars} if two_chars else None, "2")

    # clause 5: control-code dispatch -------------------------------------------
    dispatch_rule(ctx, report)
    starters = folder.value(CONST, "CUE_STARTING_COMMAND")
    want = sorted(cea608.CONTROL[k] for k in ("RCL", "RU2", "RU3", "RU4", "RDC"))
    report.check(sorted(starters) == want, "R-TABLE-REF", ("pycaption/scc/constants.py", "<module>"),
                 "CUE_STARTING_COMMAND lists exactly the five mode-setting codes RCL RU2 RU3 RU4 RDC (with odd parity)",
                 {"found": sorted(starters), "required": want,
                  "why": "a doubled mode-setting code that is not in the list does not arm the de-duplication of doubled "
                         "extended characters and back-spaces for that mode"}, "5")

    # clause 3: layout map
    from . import c05_layout
    c05_layout.run(ctx, report)

    # clause 1 (necessary part): the duplicate memory always describes the immediately preceding word
    report.section("doubling memory", doubling_memory, ctx, report, "1")
    from . import c05_doubling
    report.section("doubling automaton", c05_doubling.run, ctx, report, "1")
    # italic spans are balanced and cover exactly the text sent while italics were on
    from . import scc_italics
    report.section("italics pipeline", scc_italics.run, ctx, report, "6", 6 if ctx.tier == "thorough" else 4)
    # rows -> lines / chunks, positions, text and italic extents of whole pop-on captions (buffer object folded)
    from . import scc_buffer
    report.section("pop-on buffer", scc_buffer.run, ctx, report, "4", ctx.tier == "thorough")

    # the whole reader, end to end, on streams serialised from an abstract screen model
    from . import scc_e2e_fold
    report.section("end to end", scc_e2e_fold.run, ctx, report, {
        "grouping": ("R-E2E", "7", "rows on consecutive screen rows are one caption, a gap starts another"),
        "text": ("R-E2E", "7", "each line reads as the cells spell it (doubled codes once, extended characters replace "
                               "their stand-in, back-space deletes)"),
        "position": ("R-E2E", "7", "each caption sits at the (row, column) of its first row, mapped into the safe area"),
        "italics": ("R-E2E", "7", "italic nodes are balanced and cover exactly the characters sent while italics were on"),
        "times": ("R-E2E", "7", "captions split from one load share their times; loads follow each other"),
    })
    report.section("a caption addressed one row below the previous caption", next_caption_one_row_below, ctx, report)
    report.not_decided.append(
        "decoder behaviour over command sequences beyond the folded scopes (captions of more than three rows, "
        "background colours, re-addressing a row that already has text, streams beyond the generated programs)")
    report.assume("reference tables in sa/spec/cea608.py transcribe CEA-608-E (bit layout of preamble address "
                  "codes, basic/special/extended character sets); where published tables differ both "
                  "readings are accepted")


EXPECTED_DISPATCH = {
    # effect signature found in the branch -> control code(s) that must select it
    "set_active:pop": {"RCL"},
    "set_active:paint": {"RDC"},
    "set_active:roll": {"RU2", "RU3", "RU4"},
    "queue_cue": {"EOC"},
    "_roll_up": {"CR"},
    "_pop_on_only": {"EDM"},
    "reset_buffer_only": {"ENM"},
}


def dispatch_rule(ctx, report):
    fn = ctx.index.get_function("pycaption/scc/__init__.py", "SCCReader._translate_command", inline=True, keep=("_roll_up", "_flush_implicit_buffers", "_pop_on"))
    report.covered(fn)
    folder = ctx.memo("folder", lambda: Folder(ctx.index))
    wordname = fn.params[1] if len(fn.params) > 1 else "word"
    chain = None
    for st in fn.node.body:
        if isinstance(st, ast.If):
            chain = st
            break
    if chain is None:
        raise AnalysisError("SCCReader._translate_command: no if/elif dispatch chain found")
    branches = []
    node = chain
    while True:
        lits = _literals_tested(node.test, wordname)
        branches.append((lits, node.body, node))
        if len(node.orelse) == 1 and isinstance(node.orelse[0], ast.If):
            node = node.orelse[0]
        else:
            break
    if len(branches) < 7:
        raise AnalysisError(f"_translate_command: only {len(branches)} dispatch branches recognised (floor 7)")
    code_of = {v: k for k, v in cea608.CONTROL.items()}
    seen_effects = {}
    for lits, body, node in branches:
        if not lits:
            raise AnalysisError(f"_translate_command: branch test not recognised: {short(node.test)}")
        eff = _effect(body)
        names = {code_of.get(l, f"?{l}") for l in lits}
        seen_effects.setdefault(eff, set()).update(names)
        want = EXPECTED_DISPATCH.get(eff)
        construct = f"branch `{short(node.test, 60)}` -> {eff}"
        if want is None:
            report.info("R-DISPATCH", (fn, node), construct, {"codes": sorted(names)}, "5")
        else:
            report.check(names == want, "R-DISPATCH", (fn, node), construct,
                         {"selected_by": sorted(names), "required": sorted(want)}, "5")
    for eff, want in EXPECTED_DISPATCH.items():
        if eff not in seen_effects:
            report.violation("R-DISPATCH", fn, f"no branch with effect {eff}",
                             {"required_codes": sorted(want)}, "5")
    # roll depth: RU2/3/4 -> 2/3/4, observed on the reader's state after the whole reader was folded on a one-row
    # roll-up stream of each depth (how the branch spells the assignment - constants, a table, a helper - is its business)
    from . import scc_e2e_fold
    want_depth = {"RU2": 2, "RU3": 3, "RU4": 4}
    eng = scc_e2e_fold.Engine(ctx)
    depth = {}
    for d_ in (2, 3, 4):
        doc = scc_e2e_fold.rollup_stream(d_, [["ROW"]], 1, False, True)
        me = eng.reader_after(doc)
        depth[f"RU{d_}"] = me.attrs.get("roll_rows_expected") if hasattr(me, "attrs") else me
    report.check(depth == want_depth, "R-DISPATCH", fn, "roll-up depth per RU2/RU3/RU4",
                 {"found": depth, "required": want_depth}, "5")


def _literals_tested(test, wordname):
    """String literals compared with `word` in the test (== or in (...)); for
    `a and b` the literals of the conjunct that mentions `word`."""
    if isinstance(test, ast.BoolOp) and isinstance(test.op, ast.And):
        for v in test.values:
            l = _literals_tested(v, wordname)
            if l:
                return l
        return []
    if isinstance(test, ast.Compare) and len(test.ops) == 1 and isinstance(test.left, ast.Name) \
            and test.left.id == wordname:
        c = test.comparators[0]
        if isinstance(test.ops[0], ast.Eq) and isinstance(c, ast.Constant) and isinstance(c.value, str):
            return [c.value]
        if isinstance(test.ops[0], ast.In) and isinstance(c, (ast.Tuple, ast.List, ast.Set)) \
                and all(isinstance(e, ast.Constant) for e in c.elts):
            return [e.value for e in c.elts]
    return []


def _effect(body):
    calls = []
    for st in body:
        for n in walk_no_nested(st):
            if isinstance(n, ast.Call):
                cn = call_name(n) or ""
                last = cn.split(".")[-1]
                if last == "set_active" and n.args and isinstance(n.args[0], ast.Constant):
                    return f"set_active:{n.args[0].value}"
                calls.append(last)
    if "appendleft" in calls or "PopOnCue" in calls:
        return "queue_cue"
    if "_roll_up" in calls:
        return "_roll_up"
    if "_pop_on" in calls:
        return "_pop_on_only"
    if calls == ["new_creator"]:
        return "reset_buffer_only"
    if "interpret_command" in calls:
        return "delegate_to_buffer"
    return "other:" + ",".join(calls)


def doubling_memory(ctx, report, clause):
    """A doubled code counts once - and ONLY a code equal to the word sent immediately before it is
    dropped.  Necessary structural part: every attribute the duplicate test compares the word
    with is assigned on every path through the routine that falls through to 'not a duplicate',
    and cleared on every path that reports a duplicate; otherwise the memory can survive
    intervening words and a later, separate occurrence of the same code is swallowed.
    (The sequence behaviour itself is not decided.)"""
    from ..engines import pathrules as PR
    fn = ctx.index.get_function("pycaption/scc/__init__.py", "SCCReader._handle_double_command")
    report.covered(fn)
    word = fn.params[1]
    mems = set()
    for n in walk_no_nested(fn.node):
        if isinstance(n, ast.Compare) and len(n.ops) == 1 and isinstance(n.ops[0], (ast.Eq, ast.NotEq, ast.In)):
            l, r = n.left, n.comparators[0]
            for a, b in ((l, r), (r, l)):
                if isinstance(a, ast.Name) and a.id == word and isinstance(b, ast.Attribute) \
                        and isinstance(b.value, ast.Name) and b.value.id == "self":
                    mems.add(b.attr)
    if not mems:
        raise AnalysisError("_handle_double_command: no comparison of the word with remembered state found")

    def classify(n):
        if isinstance(n, (ast.Assign, ast.AugAssign)):
            out = []
            tg = n.targets if isinstance(n, ast.Assign) else [n.target]
            for t in tg:
                if isinstance(t, ast.Attribute) and isinstance(t.value, ast.Name) and t.value.id == "self" and t.attr in mems:
                    return f"SET:{t.attr}"
        return None
    paths = PR.paths_of_block(fn.node.body, classify)
    ret_true = {n.lineno for n in walk_no_nested(fn.node) if isinstance(n, ast.Return)
                and isinstance(n.value, ast.Constant) and n.value.value is True}
    bad = []
    for ev, end in paths:
        flat = PR.flat(ev)
        if any(isinstance(e, tuple) and e[0] == "return" and e[1] in ret_true for e in flat):
            continue        # the word is dropped: the automaton check judges what the memory may hold then
        fl = [e for e in flat if isinstance(e, str)]
        for m in sorted(mems):
            if f"SET:{m}" not in fl:
                bad.append({"memory": f"self.{m}", "path_events": [str(e) for e in PR.flat(ev)][-4:], "ends": end})
    report.check(not bad, "R-MEMORY-FRESH", fn,
                 "the duplicate memory is re-assigned on every path that accepts the word (it always describes the previous word)",
                 {"memories": sorted(mems), "paths": len(paths), "paths_leaving_memory_stale": bad[:3]}, clause)
    # every word passes through the routine: _translate_word calls it first, unconditionally
    tw = ctx.index.get_function("pycaption/scc/__init__.py", "SCCReader._translate_word")
    report.covered(tw)
    first = next((st for st in tw.node.body if not (isinstance(st, ast.Expr) and isinstance(st.value, ast.Constant))), None)
    ok = first is not None and isinstance(first, ast.If) and "_handle_double_command" in src(first.test)
    report.check(ok, "R-MEMORY-FRESH", tw, "every code word is shown to the duplicate filter before anything else",
                 short(first) if first is not None else None, clause)


def next_caption_one_row_below(ctx, report):
    """Two pop-on captions, each loaded and shown on its own: the first on row r, the second on row r + 1.  The second is a
    caption of its own - one line, at row r + 1 - not a continuation line of the first."""
    from . import scc_e2e_fold as E2
    C = E2.C
    eng = E2.Engine(ctx)
    report.covered(eng.fn)
    bad = []
    for d, (r1, r2) in itertools.product((1, 2), ((14, 15), (1, 2), (7, 8))):
        lines = ["Scenarist_SCC V1.0", ""]
        for k, (row, text) in enumerate(((r1, "ONE"), (r2, "TWO"))):
            words = [C.CONTROL["RCL"]] * d + [C.CONTROL["ENM"]] * d + [E2.pac(row, 0)] * d + E2.text_words(text) + [C.CONTROL["EOC"]] * d
            lines += [f"{E2.tc(1 + 2 * k, 0, False)}\t" + " ".join(words), ""]
        lines += [f"{E2.tc(5, 0, False)}\t" + " ".join([C.CONTROL["EDM"]] * d), ""]
        got = eng.read("\n".join(lines))
        want = [(["ONE"], 5 + 90 * (r1 - 1) / 15), (["TWO"], 5 + 90 * (r2 - 1) / 15)]
        if isinstance(got, tuple):
            bad.append({"rows": (r1, r2), "raises": f"{got[1]}: {got[3]}"[:120]})
            continue
        seen = [([l for l in g["lines"]], g["y"]) for g in got]
        if len(seen) != 2 or any(a[0] != b[0] or not isinstance(a[1], (int, float)) or abs(a[1] - b[1]) > 0.51 for a, b in zip(seen, want)):
            bad.append({"rows": (r1, r2), "codes": "doubled" if d == 2 else "single", "captions (lines, y%)": seen, "required": want})
    report.check(not bad, "R-E2E", eng.fn, "a caption addressed one row below the previous caption is a caption of its own, at its own row",
                 {"mismatches": bad[:3]}, "7")
