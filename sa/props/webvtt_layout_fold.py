"""C12 / C13 (WebVTT cue settings): `WebVTTWriter._convert_positioning` folded on a grid of layouts.

Layout values are built by folding the geometry classes' own constructors; the writer is a
class-backed stub carrying the option attributes (relativize, fit_to_screen, video_width,
video_height); `_convert_positioning` and everything it calls (Layout.as_percentage_of,
fit_to_screen, Size arithmetic and printing) are folded by the checker's evaluator.

Grid: origins in every unit (%, px, em, pt, c) - extents absent / fitting / overflowing the safe
area - paddings absent / four-sided - all horizontal alignments (and none) - relativize on/off
- fit_to_screen on/off - video size present, absent, width only, height only.

Expected (from the property, computed here in exact arithmetic):
  needed dimension missing for a non-percentage length, relativize on  -> RelativizationError
  relativize off, a non-percentage length present                      -> no positioning at all
  otherwise  align:<alignment> unless centred; position = left + padding.start;
             line = top + padding.before; size = width - paddings (when a width is known);
             every length a percentage (two decimals); with fit_to_screen the box is cut to the
             90% / 95% edges and a missing extent reaches exactly those edges
"""
import ast
import itertools
import re
from fractions import Fraction as Fr

from ..core.tree import AnalysisError
from ..core.constfold import Folder, Stub, FoldRaise

VTT = "pycaption/webvtt.py"
UNIT = {"%": "PERCENT", "px": "PIXEL", "em": "EM", "pt": "PT", "c": "CELL"}
W, H = 640, 360


def to_pct(v, unit, dim, cells):
    v = Fr(str(v))
    if unit == "%":
        return v
    if unit == "c":
        return v * 100 / cells
    px = v if unit == "px" else v * 16 if unit == "em" else v * 4 / 3
    return px * 100 / dim


class World:
    def __init__(self, ctx):
        self.F = Folder(ctx.index)
        self.F.object_classes = ("Layout", "Point", "Size", "Stretch", "Padding", "Alignment", "Region")
        self.fn = ctx.index.get_function(VTT, "WebVTTWriter._convert_positioning")
        self.n = 0

    def ev(self, text, **local):
        return self.F.eval_in("pycaption.geometry", ast.parse(text, mode="eval").body, local)

    def size(self, v, unit):
        return self.ev(f"Size(v, UnitEnum.{UNIT[unit]})", v=v)

    def layout(self, origin, extent, padding, align):
        o = self.ev("Point(x, y)", x=self.size(*origin[0]), y=self.size(*origin[1])) if origin else None
        e = self.ev("Stretch(h, v)", h=self.size(*extent[0]), v=self.size(*extent[1])) if extent else None
        p = self.ev("Padding(before=b, after=a, start=s, end=e)", **{k: self.size(*v) for k, v in
                                                                     zip("baes", padding)}) if padding else None
        a = self.ev(f"Alignment(HorizontalAlignmentEnum.{align}, VerticalAlignmentEnum.TOP)") if align else None
        return self.ev("Layout(origin=o, extent=e, padding=p, alignment=a)", o=o, e=e, p=p, a=a)

    def settings(self, lay, relativize, fit, vw, vh):
        me = Stub("writer", {"relativize": relativize, "fit_to_screen": fit, "video_width": vw, "video_height": vh},
                  cls=self.fn.cls)
        self.n += 1
        try:
            return self.F.call_function(self.fn, [lay], {}, self_value=me)
        except FoldRaise as e:
            return ("raise", e.exc_name)


def expected(origin, extent, padding, align, relativize, fit, vw, vh):
    comps = [(origin[0], "x"), (origin[1], "y")] + ([(extent[0], "x"), (extent[1], "y")] if extent else []) + \
        ([(padding[0], "y"), (padding[1], "y"), (padding[2], "x"), (padding[3], "x")] if padding else [])
    absolute = [c for c in comps if c[0][1] != "%"]
    if not relativize:
        if absolute:
            return ""
    else:
        for (v, unit), axis in absolute:
            if (axis == "x" and not vw) or (axis == "y" and not vh):
                return ("raise", "RelativizationError")

    def pc(c, axis):
        return to_pct(c[0], c[1], vw if axis == "x" else vh, 32 if axis == "x" else 15)
    x, y = pc(origin[0], "x"), pc(origin[1], "y")
    w = pc(extent[0], "x") if extent else None
    if fit:
        if w is None or x + w > 90:
            w = 90 - x
    out = {}
    if align and align != "CENTER":
        out["align"] = align.lower()
    elif not align:
        out["align"] = None            # not specified by the property
    ps = pc(padding[3], "x") if padding else 0          # order given: before, after, end, start
    pe = pc(padding[2], "x") if padding else 0
    pb = pc(padding[0], "y") if padding else 0
    out["position"] = x + ps
    out["line"] = y + pb
    if w is not None:
        out["size"] = w - ps - pe
    return out


def parse(s):
    out = {}
    for tok in s.split():
        if ":" not in tok:
            return None
        k, v = tok.split(":", 1)
        out[k] = v
    return out


def explore(ctx, thorough):
    Wd = World(ctx)
    bad = {"raise": [], "units": [], "arith": [], "align": [], "fit": []}
    origins = [((10, "%"), (20, "%")), ((64, "px"), (36, "px")), ((2, "em"), (1, "em")), ((12, "pt"), (27, "pt")),
               ((8, "c"), (3, "c")), ((33.333, "%"), (12.5, "%"))]
    extents = [None, ((50, "%"), (10, "%")), ((320, "px"), (36, "px")), ((85, "%"), (90, "%"))]
    paddings = [None, ((5, "%"), (5, "%"), (2, "%"), (3, "%")), ((18, "px"), (18, "px"), (32, "px"), (16, "px"))]
    aligns = [None, "LEFT", "CENTER", "RIGHT", "START", "END"]
    videos = [(W, H), (None, None), (W, None), (None, H)]
    n = 0
    for oi, ei, pi in itertools.product(range(len(origins)), range(len(extents)), range(len(paddings))):
        for ai, (rel, fit), (vw, vh) in itertools.product(range(len(aligns)), ((True, True), (True, False), (False, True), (False, False)), videos):
            if not thorough and (oi * 7 + ei * 5 + pi * 3 + ai + (vw or 1) + (vh or 2) + rel + 2 * fit) % 4:
                continue
            o, e, p, a = origins[oi], extents[ei], paddings[pi], aligns[ai]
            n += 1
            try:
                lay = Wd.layout(o, e, p, a)
                got = Wd.settings(lay, rel, fit, vw, vh)
            except AnalysisError as ex:
                if isinstance(ex, FoldRaise):
                    got = ("raise", ex.exc_name)
                else:
                    raise AnalysisError(f"WebVTTWriter._convert_positioning cannot be folded: {ex}")
            want = expected(o, e, p, a, rel, fit, vw, vh)
            case = {"origin": o, "extent": e, "padding_before_after_end_start": p, "alignment": a, "relativize": rel,
                    "fit_to_screen": fit, "video": (vw, vh)}
            if isinstance(want, tuple) or isinstance(got, tuple):
                if want != got:
                    bad["raise"].append(dict(case, got=got if isinstance(got, tuple) else f"writes {got!r}",
                                             required=want if isinstance(want, tuple) else "cue settings"))
                continue
            if not isinstance(got, str):
                raise AnalysisError("_convert_positioning: folded result is not a string")
            if want == "":
                if got.strip():
                    bad["units"].append(dict(case, written=got, required="no positioning (relativize is off and a length is absolute)"))
                continue
            g = parse(got)
            if g is None or any(k in g and not re.fullmatch(r"\d+(\.\d{1,2})?%", g[k]) for k in ("position", "line", "size")):
                bad["units"].append(dict(case, written=got, required="percentages with at most two decimals"))
                continue
            if want.get("align", "") is not None and g.get("align") != want.get("align"):
                bad["align"].append(dict(case, written=got, required_align=want.get("align", "(omitted)")))
                continue
            wrong = {}
            for k in ("position", "line", "size"):
                wv = want.get(k)
                gv = float(g[k][:-1]) if k in g else None
                if wv is None or wv == 0:
                    if gv not in (None, 0.0) and wv is None:
                        wrong[k] = (g.get(k), None)
                elif gv is None or abs(gv - float(wv)) > 0.0051:
                    wrong[k] = (g.get(k), f"{float(wv):.2f}%")
            if wrong:
                bad["fit" if fit and "size" in wrong and len(wrong) == 1 else "arith"].append(dict(case, written=got, wrong=wrong))
    return Wd.fn, bad, n


def run(ctx, report, rules):
    thorough = ctx.tier == "thorough"
    fn, bad, n = ctx.memo(("webvtt_layout_fold", thorough), lambda: explore(ctx, thorough))
    report.covered(fn)
    report.count("webvtt_layouts_folded", n)
    for key, (rule, clause, text) in rules.items():
        report.check(not bad[key], rule, fn, f"WebVTT cue settings on {n} layouts x options: {text}",
                     {"layouts": n, "mismatches": bad[key][:2]}, clause)
