"""C12 / C13 (WebVTT cue settings): `WebVTTWriter._convert_positioning` folded on a grid of layouts.

Layout values are built by folding the geometry classes' own constructors; the writer is a
class-backed stub carrying the option attributes (relativize, fit_to_screen, video_width,
video_height); `_convert_positioning` and everything it calls (Layout.as_percentage_of,
fit_to_screen, Size arithmetic and printing) are folded by the checker's evaluator.

Grid: origins in every unit (%, px, em, pt, c) - extents absent / fitting / overflowing the safe
area - paddings absent / four-sided - all horizontal alignments (and none) - relativize on/off
- fit_to_screen on/off - video size present, absent, width only, height only.

Expected (from the property, computed here in exact arithmetic):
  needed dimension missing for a non-percentage length, relativize on  -> RelativizationError
  relativize off, a non-percentage length present                      -> no positioning at all
  otherwise  align:<alignment> unless centred; position = left + padding.start;
             line = top + padding.before; size = width - paddings (when a width is known);
             every length a percentage (two decimals); with fit_to_screen the box is cut to the
             90% / 95% edges and a missing extent reaches exactly those edges
"""
import ast
import itertools
import re
from fractions import Fraction as Fr

from ..core.tree import AnalysisError
from ..core.constfold import Folder, Stub, FoldRaise

VTT = "pycaption/webvtt.py"
UNIT = {"%": "PERCENT", "px": "PIXEL", "em": "EM", "pt": "PT", "c": "CELL"}
W, H = 640, 360


def to_pct(v, unit, dim, cells):
    v = Fr(str(v))
    if unit == "%":
        return v
    if unit == "c":
        return v * 100 / cells
    px = v if unit == "px" else v * 16 if unit == "em" else v * 4 / 3
    return px * 100 / dim


class World:
    def __init__(self, ctx):
        self.F = Folder(ctx.index)
        self.F.object_classes = ("Layout", "Point", "Size", "Stretch", "Padding", "Alignment", "Region")
        self.fn = ctx.index.get_function(VTT, "WebVTTWriter._convert_positioning")
        self.n = 0

    def ev(self, text, **local):
        return self.F.eval_in("pycaption.geometry", ast.parse(text, mode="eval").body, local)

    def size(self, v, unit):
        return self.ev(f"Size(v, UnitEnum.{UNIT[unit]})", v=v)

    def layout(self, origin, extent, padding, align):
        o = self.ev("Point(x, y)", x=self.size(*origin[0]), y=self.size(*origin[1])) if origin else None
        e = self.ev("Stretch(h, v)", h=self.size(*extent[0]), v=self.size(*extent[1])) if extent else None
        p = self.ev("Padding(before=b, after=a, start=s, end=e)", **{k: self.size(*v) for k, v in
                                                                     zip("baes", padding)}) if padding else None
        if align == "VERTICAL-ONLY":
            a = self.ev("Alignment(None, VerticalAlignmentEnum.TOP)")
        else:
            a = self.ev(f"Alignment(HorizontalAlignmentEnum.{align}, VerticalAlignmentEnum.TOP)") if align else None
        return self.ev("Layout(origin=o, extent=e, padding=p, alignment=a)", o=o, e=e, p=p, a=a)

    def settings(self, lay, relativize, fit, vw, vh):
        # the writer is built by its own constructor from the public options (so that what the constructor makes of them counts)
        me = Stub("writer", {}, cls=self.fn.cls)
        init = self.fn.cls.find_method("__init__")
        self.n += 1
        try:
            if init is not None:
                self.F.call_function(init, [], {"relativize": relativize, "fit_to_screen": fit, "video_width": vw, "video_height": vh},
                                     self_value=me)
            else:
                me.attrs.update({"relativize": relativize, "fit_to_screen": fit, "video_width": vw, "video_height": vh})
            return self.F.call_function(self.fn, [lay], {}, self_value=me)
        except FoldRaise as e:
            return ("raise", e.exc_name)


def expected(origin, extent, padding, align, relativize, fit, vw, vh):
    comps = [(origin[0], "x"), (origin[1], "y")] + ([(extent[0], "x"), (extent[1], "y")] if extent else []) + \
        ([(padding[0], "y"), (padding[1], "y"), (padding[2], "x"), (padding[3], "x")] if padding else [])
    absolute = [c for c in comps if c[0][1] != "%"]
    if not relativize:
        if absolute:
            return ""
    else:
        for (v, unit), axis in absolute:
            if (axis == "x" and not vw) or (axis == "y" and not vh):
                return ("raise", "RelativizationError")

    def pc(c, axis):
        return to_pct(c[0], c[1], vw if axis == "x" else vh, 32 if axis == "x" else 15)
    x, y = pc(origin[0], "x"), pc(origin[1], "y")
    w = pc(extent[0], "x") if extent else None
    if fit:
        if w is None or x + w > 90:
            w = 90 - x
    out = {}
    if align == "VERTICAL-ONLY":
        out["align"] = "start"         # no horizontal alignment given: the DFXP default (start)
    elif align and align != "CENTER":
        out["align"] = align.lower()
    elif not align:
        out["align"] = None            # not specified by the property
    ps = pc(padding[3], "x") if padding else 0          # order given: before, after, end, start
    pe = pc(padding[2], "x") if padding else 0
    pb = pc(padding[0], "y") if padding else 0
    out["position"] = x + ps
    out["line"] = y + pb
    if w is not None:
        out["size"] = w - ps - pe
    return out


def _snap(o, depth=0):
    if isinstance(o, Stub):
        return (o.name, tuple(sorted((k, _snap(v, depth + 1)) for k, v in o.attrs.items()))) if depth < 8 else "..."
    return repr(o)


def parse(s):
    out = {}
    for tok in s.split():
        if ":" not in tok:
            return None
        k, v = tok.split(":", 1)
        out[k] = v
    return out


def explore(ctx, thorough):
    Wd = World(ctx)
    bad = {"raise": [], "units": [], "arith": [], "align": [], "fit": [], "mutated": []}
    origins = [((10, "%"), (20, "%")), ((64, "px"), (36, "px")), ((2, "em"), (1, "em")), ((12, "pt"), (27, "pt")),
               ((8, "c"), (3, "c")), ((33.333, "%"), (12.5, "%")),
               # lengths with three decimals in units whose conversion factor magnifies the third one
               ((2.345, "c"), (1.004, "c")), ((0.555, "em"), (3.126, "em"))]
    extents = [None, ((50, "%"), (10, "%")), ((320, "px"), (36, "px")), ((85, "%"), (90, "%"))]
    paddings = [None, ((5, "%"), (5, "%"), (2, "%"), (3, "%")), ((18, "px"), (18, "px"), (32, "px"), (16, "px"))]
    aligns = [None, "LEFT", "CENTER", "RIGHT", "START", "END", "VERTICAL-ONLY"]
    videos = [(W, H), (None, None), (W, None), (None, H)]
    n = 0
    for oi, ei, pi in itertools.product(range(len(origins)), range(len(extents)), range(len(paddings))):
        for ai, (rel, fit), (vw, vh) in itertools.product(range(len(aligns)), ((True, True), (True, False), (False, True), (False, False)), videos):
            if not thorough and (oi * 7 + ei * 5 + pi * 3 + ai + (vw or 1) + (vh or 2) + rel + 2 * fit) % 4:
                continue
            o, e, p, a = origins[oi], extents[ei], paddings[pi], aligns[ai]
            n += 1
            try:
                lay = Wd.layout(o, e, p, a)
                watch = n % 5 == 0          # the receiver is compared before / after on every fifth configuration
                before = _snap(lay) if watch else None
                got = Wd.settings(lay, rel, fit, vw, vh)
                if watch and _snap(lay) != before:
                    bad["mutated"].append({"origin": o, "extent": e, "padding_before_after_end_start": p, "alignment": a,
                                           "relativize": rel, "fit_to_screen": fit, "video": (vw, vh),
                                           "layout_before": str(before)[:200], "layout_after": str(_snap(lay))[:200]})
            except AnalysisError as ex:
                if isinstance(ex, FoldRaise):
                    got = ("raise", ex.exc_name)
                else:
                    raise AnalysisError(f"WebVTTWriter._convert_positioning cannot be folded: {ex}")
            want = expected(o, e, p, a, rel, fit, vw, vh)
            case = {"origin": o, "extent": e, "padding_before_after_end_start": p, "alignment": a, "relativize": rel,
                    "fit_to_screen": fit, "video": (vw, vh)}
            if isinstance(want, tuple) or isinstance(got, tuple):
                if want != got:
                    bad["raise"].append(dict(case, got=got if isinstance(got, tuple) else f"writes {got!r}",
                                             required=want if isinstance(want, tuple) else "cue settings"))
                continue
            if not isinstance(got, str):
                raise AnalysisError("_convert_positioning: folded result is not a string")
            if want == "":
                if got.strip():
                    bad["units"].append(dict(case, written=got, required="no positioning (relativize is off and a length is absolute)"))
                continue
            g = parse(got)
            if g is None or any(k in g and not re.fullmatch(r"\d+(\.\d{1,2})?%", g[k]) for k in ("position", "line", "size")):
                bad["units"].append(dict(case, written=got, required="percentages with at most two decimals"))
                continue
            if want.get("align", "") is not None and g.get("align") != want.get("align"):
                bad["align"].append(dict(case, written=got, required_align=want.get("align", "(omitted)")))
                continue
            wrong = {}
            for k in ("position", "line", "size"):
                wv = want.get(k)
                gv = float(g[k][:-1]) if k in g else None
                if wv is None or wv == 0:
                    if gv not in (None, 0.0) and wv is None:
                        wrong[k] = (g.get(k), None)
                elif gv is None or abs(gv - float(wv)) > 0.0051:
                    wrong[k] = (g.get(k), f"{float(wv):.2f}%")
            if wrong:
                bad["fit" if fit and "size" in wrong and len(wrong) == 1 else "arith"].append(dict(case, written=got, wrong=wrong))
    return Wd.fn, bad, n


def explore_cues(ctx):
    """whole-writer scenarios: cue settings read from a WebVTT file are written back verbatim; nodes of one caption with
    different layouts become separate cues with the same times, each with its own position"""
    import ast as _ast
    F = Folder(ctx.index)
    F.object_classes = "*"
    bad = {"verbatim": [], "split": []}

    def obj(path, name, **attrs):
        cls = ctx.index.get_class(path, name)
        me = Stub(name, {}, cls=cls)
        init = cls.find_method("__init__")
        if init is not None:
            F.call_function(init, [], {}, self_value=me)
        return cls, me
    settings = ["line:0 position:20% align:left", "position:10%,line-left align:start size:35%", "vertical:rl line:-1", "region:fred"]
    n = 0
    for st in settings:
        n += 1
        doc = f"WEBVTT\n\n00:01.000 --> 00:02.000 {st}\nhello\n\n00:03.000 --> 00:04.000\nplain\n"
        try:
            rc, r = obj("pycaption/webvtt.py", "WebVTTReader")
            cs = F.call_function(rc.find_method("read"), [doc], {}, self_value=r)
            wc, w = obj("pycaption/webvtt.py", "WebVTTWriter")
            out = F.call_function(wc.find_method("write"), [cs], {}, self_value=w)
        except FoldRaise as e:
            bad["verbatim"].append({"settings": st, "raises": f"{e.exc_name}: {e}"[:120]})
            continue
        except AnalysisError as e:
            raise AnalysisError(f"WebVTT read -> write cannot be folded: {e}")
        lines = [l for l in out.split("\n") if "-->" in l]
        if len(lines) != 2 or lines[0] != f"00:01.000 --> 00:02.000 {st}" or lines[1] != "00:03.000 --> 00:04.000":
            bad["verbatim"].append({"settings": st, "timing_lines_written": lines})
    # a cue that is not emitted (no payload, or its timing line directly followed by another one) keeps its settings to itself
    for label, doc, want in (
            ("a cue with settings and no payload, then a cue without settings",
             "WEBVTT\n\n00:01.000 --> 00:02.000 line:0 position:20%\n\n00:03.000 --> 00:04.000\nplain\n\n00:05.000 --> 00:06.000 align:left\nlast\n",
             ["00:03.000 --> 00:04.000", "00:05.000 --> 00:06.000 align:left"]),
            ("a timing line with settings directly followed by one without",
             "WEBVTT\n\n00:01.000 --> 00:02.000 line:0 position:20%\n00:03.000 --> 00:04.000\nplain\n\n00:05.000 --> 00:06.000\nlast\n",
             ["00:03.000 --> 00:04.000", "00:05.000 --> 00:06.000"]),
            ("cues with and without settings alternating",
             "WEBVTT\n\n00:01.000 --> 00:02.000 line:0\na\n\n00:03.000 --> 00:04.000\nb\n\n00:05.000 --> 00:06.000 size:35%\nc\n\n00:07.000 --> 00:08.000\nd\n",
             ["00:01.000 --> 00:02.000 line:0", "00:03.000 --> 00:04.000", "00:05.000 --> 00:06.000 size:35%", "00:07.000 --> 00:08.000"])):
        n += 1
        try:
            rc, r = obj("pycaption/webvtt.py", "WebVTTReader")
            cs = F.call_function(rc.find_method("read"), [doc], {}, self_value=r)
            wc, w = obj("pycaption/webvtt.py", "WebVTTWriter")
            out = F.call_function(wc.find_method("write"), [cs], {}, self_value=w)
        except FoldRaise as e:
            bad["verbatim"].append({"document": label, "raises": f"{e.exc_name}: {e}"[:120]})
            continue
        except AnalysisError as e:
            raise AnalysisError(f"WebVTT read -> write cannot be folded ({label}): {e}")
        lines = [l for l in out.split("\n") if "-->" in l]
        if lines != want:
            bad["verbatim"].append({"document": label, "source": doc, "timing_lines_written": lines, "required": want})
    # splitting by node layout
    Wd = World(ctx)
    Wd.F = F

    def ev(text, mod="pycaption.base", **local):
        return F.eval_in(mod, _ast.parse(text, mode="eval").body, local)
    la = Wd.layout(((10, "%"), (10, "%")), None, None, "LEFT")
    lb = Wd.layout(((50, "%"), (80, "%")), None, None, "RIGHT")
    import re as _re
    for label, layouts, cstyle in (("two layouts", [la, lb], {}), ("same layout twice", [la, la], {}), ("three nodes, two layouts", [la, la, lb], {}),
                                   # a style of the whole caption: every cue the caption is split into carries it, balanced
                                   ("two layouts, caption in italics and bold", [la, lb], {"italics": True, "bold": True}),
                                   ("three nodes, two layouts, caption underlined", [la, la, lb], {"underline": True})):
        n += 1
        nodes = []
        for i, l in enumerate(layouts):
            if i:
                nodes.append(ev("CaptionNode.create_break(layout_info=l)", l=l))
            nodes.append(ev("CaptionNode.create_text(t, layout_info=l)", t=f"part{i}", l=l))
        cs = ev("CaptionSet({'en-US': CaptionList([Caption(1000000, 2000000, n, style=st)])})", n=nodes, st=dict(cstyle))
        try:
            wc, w = obj("pycaption/webvtt.py", "WebVTTWriter")
            out = F.call_function(wc.find_method("write"), [cs], {}, self_value=w)
        except FoldRaise as e:
            bad["split"].append({"caption": label, "raises": f"{e.exc_name}: {e}"[:120]})
            continue
        except AnalysisError as e:
            raise AnalysisError(f"WebVTTWriter.write cannot be folded on a caption with node layouts: {e}")
        blocks = [b for b in out.split("\n\n")[1:] if b.strip()]
        cues = []
        for b in blocks:
            ls = b.strip("\n").split("\n")
            k = 0
            while k < len(ls):
                if "-->" in ls[k]:
                    cues.append([ls[k], []])
                elif cues:
                    cues[-1][1].append(ls[k])
                k += 1
        groups = []
        for i, l in enumerate(layouts):
            if groups and groups[-1][0] is l:
                groups[-1][1].append(f"part{i}")
            else:
                groups.append([l, [f"part{i}"]])
        want = [("position:10%" if g[0] is la else "position:50%", g[1]) for g in groups]
        def _balanced(text):
            depth = []
            for m_ in _re.finditer(r"<(/?)([a-z]+)[^>]*>", text):
                if not m_.group(1):
                    depth.append(m_.group(2))
                elif not depth or depth.pop() != m_.group(2):
                    return False
            return not depth
        tags = {"italics": "i", "bold": "b", "underline": "u"}
        ok = len(cues) == len(want) and all(
            c[0].startswith("00:01.000 --> 00:02.000") and w_[0] in c[0]
            and [t_ for t_ in (_re.sub(r"<[^>]+>", "", x).strip() for x in c[1]) if t_] == w_[1]
            and _balanced("\n".join(c[1]))
            and all(f"<{tags[k_]}>" in "\n".join(c[1]) for k_ in cstyle)
            and (cstyle or not _re.search(r"<[^>]+>", "\n".join(c[1])))
            for c, w_ in zip(cues, want))
        if not ok:
            bad["split"].append({"caption": label, "cues_written": cues, "required": want})
    return F, bad, n


def run_cues(ctx, report, rules):
    F, bad, n = ctx.memo("webvtt_layout_cues", lambda: explore_cues(ctx))
    fn = ctx.index.get_function(VTT, "WebVTTWriter.write")
    report.covered(fn)
    texts = {"verbatim": "cue settings read from a WebVTT file are written back verbatim",
             "split": "nodes of one caption with different layouts become separate cues with the same times, each with its own position"}
    for key, (rule, clause) in rules.items():
        report.check(not bad[key], rule, fn, f"WebVTT writer on {n} whole-document scenarios: {texts[key]}",
                     {"scenarios": n, "mismatches": bad[key][:2]}, clause)


def run(ctx, report, rules):
    thorough = ctx.tier == "thorough"
    fn, bad, n = ctx.memo(("webvtt_layout_fold", thorough), lambda: explore(ctx, thorough))
    report.covered(fn)
    report.count("webvtt_layouts_folded", n)
    for key, val in rules.items():
        rule, clause, text = val if len(val) == 3 else (val[0], val[1], "relativizing / fitting a layout for output leaves the "
                                                                       "receiver layout unchanged")

        report.check(not bad[key], rule, fn, f"WebVTT cue settings on {n} layouts x options: {text}",
                     {"layouts": n, "mismatches": bad[key][:2]}, clause)
