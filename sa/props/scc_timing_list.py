"""TimingCorrectingCaptionList (the list the SCC reader stores its captions in) decided by folding its
source on stub captions: append / extend end the previously added batch at the new caption's start
when that batch is still open (end 0) or ends less than five frames (+1 us) earlier; nothing else is
touched; None and node-less captions are neither stored nor allowed to end anything."""
import itertools
from fractions import Fraction

from ..core.tree import AnalysisError
from ..core.constfold import Folder, Stub, FoldRaise

SPC = "pycaption/scc/specialized_collections.py"
FRAME = Fraction(1001000, 30)


def run(ctx, report, clause):
    F = Folder(ctx.index)
    F.object_classes = ("TimingCorrectingCaptionList",)
    cls = ctx.index.get_class(SPC, "TimingCorrectingCaptionList")
    for m in ("append", "extend", "_update_last_batch"):
        report.covered(cls.find_method(m))
    frame = float(F.value("pycaption.scc.constants", "MICROSECONDS_PER_CODEWORD"))

    def cap(start, end, nodes=True):
        return Stub("caption", {"start": start, "end": end, "nodes": ["n"] if nodes else []})

    def new():
        lst = Stub("list", {"__list__": []}, cls=cls)
        F.call_function(cls.find_method("__init__"), [], {}, self_value=lst)
        return lst

    def do(lst, op, arg):
        try:
            F.call_function(cls.find_method(op), [arg], {}, self_value=lst)
        except FoldRaise as e:
            raise AnalysisError(f"TimingCorrectingCaptionList.{op} raises: {e}")
        except AnalysisError as e:
            raise AnalysisError(f"TimingCorrectingCaptionList.{op} cannot be folded: {e}")

    T0 = 10_000_000
    gaps = {"0": 0, "4 frames": 4 * frame, "just under 5 frames + 1us": 5 * frame + 0.5, "5 frames + 1us": 5 * frame + 1,
            "6 frames": 6 * frame, "2 s": 2_000_000}
    bad, n = [], 0
    # (1) one caption then another, for every previous end state and gap
    for prev_end_kind in ("open", "closed"):
        for gname, gap in gaps.items():
            for how in ("append", "extend"):
                n += 1
                lst = new()
                a = cap(T0 - 3_000_000, 0 if prev_end_kind == "open" else T0)
                b = cap(T0 + gap, 0)
                do(lst, "append", a)
                do(lst, how, b if how == "append" else [b])
                joined = a.attrs["end"] == b.attrs["start"]
                want = prev_end_kind == "open" or gap < 5 * frame + 1
                if joined != want or b.attrs["end"] != 0 or len(lst.attrs["__list__"]) != 2:
                    bad.append({"previous_caption": prev_end_kind, "gap": gname, "added_with": how,
                                "previous_end_now": a.attrs["end"], "next_start": b.attrs["start"], "joined": joined,
                                "required_joined": want})
    # (2) batches: extend with two captions, then a third: both members of the batch are ended, earlier ones are not
    for how in ("append", "extend"):
        n += 1
        lst = new()
        first = cap(1_000_000, 2_000_000)
        do(lst, "append", first)
        b1, b2 = cap(T0, 0), cap(T0, 0)
        do(lst, "extend", [b1, b2])
        c = cap(T0 + 3_000_000, 0)
        do(lst, how, c if how == "append" else [c])
        if not (b1.attrs["end"] == b2.attrs["end"] == c.attrs["start"] and first.attrs["end"] == 2_000_000):
            bad.append({"case": "batch of two then a third", "ends": [first.attrs["end"], b1.attrs["end"], b2.attrs["end"]]})
    # (3) None / node-less captions are not stored and end nothing
    for junk_label, junk in (("None", None), ("caption without nodes", cap(T0 + 1_000_000, 0, nodes=False))):
        for how in ("append", "extend"):
            n += 1
            lst = new()
            a = cap(T0 - 3_000_000, 0)
            do(lst, "append", a)
            do(lst, how, junk if how == "append" else [junk])
            if a.attrs["end"] != 0 or len(lst.attrs["__list__"]) != 1:
                bad.append({"case": f"{junk_label} added with {how}", "stored": len(lst.attrs["__list__"]), "previous_end": a.attrs["end"]})
            # and (for append) the caption before the junk is still the one the next real caption ends
            if how != "append":
                continue
            c = cap(T0 + 2_000_000, 0)
            do(lst, "append", c)
            if a.attrs["end"] != c.attrs["start"]:
                bad.append({"case": f"{junk_label} then a real caption", "previous_end": a.attrs["end"], "required": c.attrs["start"]})
    report.check(not bad, "R-TIMING-FOLD", cls.find_method("_update_last_batch"),
                 "a new caption ends the previously added batch exactly when that batch is open or ends less than five "
                 "frames (+1 us) earlier; junk is neither stored nor ends anything",
                 {"scenarios_folded": n, "mismatches": bad[:3]}, clause)
