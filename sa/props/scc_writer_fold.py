"""C17 end to end: `SCCWriter.write` folded on small caption sets, the document decoded by a
reference CEA-608 line-21 decoder written here from the standard (sa/spec/cea608.py).

The writer's source is folded by the checker's evaluator (nothing of pycaption is imported or run)
on caption sets built from the folded classes: 1-3 cues; texts of 1-4 lines drawn from a pool
with short lines, a line of exactly 32 and of 33 characters, a 40-letter word, every basic
character that differs from ASCII (accented letters, the division sign), punctuation; cue
spacings sparse, moderate and just feasible (transmission time + four frames).

The reference decoder reads the document the way a line-21 decoder would: one code word per
frame from each line's time code, odd parity on every byte, PAC rows, basic characters, RCL / ENM
/ EOC / EDM.  Obligations (for each set):

  header      the Scenarist header, then time-coded lines of four-hex-digit words
  parity      every byte has odd parity
  rows        only rows 1-15 are addressed; no row holds more than 32 columns; a row is broken
              only at a space unless a single word is longer than 32
  re-read     one caption per input caption, the same words in the same order
  timecodes   non-negative, non-decreasing
  visible     every caption becomes visible (its EOC is transmitted) within three frames of its start
              time - the first one too, whenever there is room to transmit it before its start

and `_format_timestamp` alone on every quarter frame of the first 70 seconds and around the
minute / hour carries: the time code is the number of whole frames of non-drop-frame time.
"""
import ast
import math
import re
from fractions import Fraction as Fr

from ..core.tree import AnalysisError
from ..core.constfold import Folder, Stub, FoldRaise
from ..spec import cea608 as C

SCC = "pycaption/scc/__init__.py"
S = 1000000
FRAME = Fr(1001000, 30)                     # microseconds per code word (non-drop-frame time code)

LINES = [
    ["Hello there."], ["two", "lines"], ["A" * 32], ["B" * 33], ["x" * 40 + " tail"], ["word " * 9 + "end"],
    ["señor está aquí: qué?"], ["ça va 3 ÷ 4 Ñandú"], ["café ó único"], ["one", "two", "three", "four"],
    ["It's 100% \"fine\" (really) - yes/no; a+b=c # & @ <tag>"], ["  padded   inside  "],
    # text that merely LOOKS like character references: transmitted character by character
    ["Tom &amp; Jerry &lt;3 &#49; AT&T", "x&GTa y&#7z &quot;q&quot; &nbsp;"],
    # a line longer than a row holding a long (but not over-long) word: rows break at spaces only
    ["the counterrevolutionaries' plan failed"], ["an incomprehensibilities-laden memo arrived", "uncharacteristically early today"],
    # a hyphenated word where the row is full: the hyphen is not a place to break
    ["aaaa bbbb cccc dddd eee example-text", "well-known twenty-first-century re-entry x-ray self-contained"],
    # long cues: three and four lines of 60-80 characters (five and more rows on the screen)
    ["the quick brown fox jumps over the lazy dog and keeps running through the field",
     "while the other animals watch from a safe distance and wonder what is going on",
     "nobody knows where it is heading or why it is in such a terrible hurry today"],
    ["one line of seventy characters, more or less, to be wrapped in three rows", "and a second one that is just as long as the first one, give or take a few",
     "a third", "and the fourth and last line of this rather long caption, wrapped as well"],
]


def tc_to_us(tc):
    m = re.fullmatch(r"(\d{2}):(\d{2}):(\d{2})([:;])(\d{2})", tc)
    if not m:
        return None
    h, mi, s, sep, f = int(m.group(1)), int(m.group(2)), int(m.group(3)), m.group(4), int(m.group(5))
    if mi > 59 or s > 59 or f > 29:
        return None
    t = Fr((h * 3600 + mi * 60 + s) * 30 + f, 30) * S
    return t if sep == ";" else t * Fr(1001, 1000)


def decode(doc):
    """-> (problems, captions[{visible_at, erased_at, rows{row: text}}], line instants)"""
    problems = []
    lines = doc.split("\n")
    if not lines or lines[0] != "Scenarist_SCC V1.0":
        return ["the first line is not the Scenarist header"], [], []
    basic = C.basic_characters()
    pacs = C.pac_table()
    nondisplayed, displayed, shown, instants = {}, None, [], []
    row = None
    last = None
    for ln in lines[1:]:
        if not ln.strip():
            continue
        m = re.fullmatch(r"(\S+)\t((?:[0-9a-f]{4})(?: [0-9a-f]{4})*) ?", ln)
        if not m:
            problems.append(f"not a time code, a tab and four-hex-digit words: {ln[:60]!r}")
            continue
        t0 = tc_to_us(m.group(1))
        if t0 is None:
            problems.append(f"malformed time code {m.group(1)!r}")
            continue
        instants.append(t0)
        for k, w in enumerate(m.group(2).split(" ")):
            t = t0 + k * FRAME
            b1, b2 = int(w[:2], 16), int(w[2:], 16)
            if not (C.has_odd_parity(b1) and C.has_odd_parity(b2)):
                problems.append(f"word {w} has a byte of even parity")
            if w == last and (b1 & 0x7F) in range(0x10, 0x20):
                last = None                    # the second copy of a doubled control code
                continue
            last = w
            hb, lb = w[:2], w[2:]
            if (b1 & 0x7F) in range(0x10, 0x20):
                if hb in pacs and lb in pacs[hb]:
                    row = pacs[hb][lb][0]
                    if not 1 <= row <= 15:
                        problems.append(f"row {row} addressed")
                    nondisplayed.setdefault(row, "")
                elif w == C.CONTROL["RCL"]:
                    pass
                elif w == C.CONTROL["ENM"]:
                    nondisplayed, row = {}, None
                elif w == C.CONTROL["EDM"]:
                    if displayed is not None and displayed["erased_at"] is None:
                        displayed["erased_at"] = t
                elif w == C.CONTROL["EOC"]:
                    if displayed is not None and displayed["erased_at"] is None:
                        displayed["erased_at"] = t
                    displayed = {"visible_at": t, "erased_at": None, "rows": dict(nondisplayed), "words_before": k}
                    shown.append(displayed)
                    nondisplayed, row = {}, None
                elif w in C.special_characters() or w in C.extended_characters():
                    problems.append(f"special/extended code {w} (the text is within the basic set)")
                else:
                    problems.append(f"unexpected control code {w}")
                continue
            for b in (hb, lb):
                if b == "80":
                    continue
                if b not in basic:
                    problems.append(f"byte {b} is not a basic character")
                    continue
                if row is None:
                    problems.append("text before any row was addressed")
                    continue
                nondisplayed[row] = nondisplayed.get(row, "") + sorted(basic[b])[0]
    return problems, shown, instants


def canonical(ch):
    """the basic table offers one glyph per code; typographic variants the standard lists compare equal"""
    return {"’": "'"}.get(ch, ch)


class World:
    def __init__(self, ctx):
        self.F = Folder(ctx.index)
        self.F.object_classes = ("Caption", "CaptionList", "CaptionNode", "CaptionSet")
        self.fn = ctx.index.get_function(SCC, "SCCWriter.write")
        self.ts = ctx.index.get_function(SCC, "SCCWriter._format_timestamp")
        self.n = 0

    def ev(self, text, **local):
        return self.F.eval_in("pycaption.base", ast.parse(text, mode="eval").body, local)

    def write(self, caps):
        cs = []
        for s, e, lines in caps:
            nodes = []
            for i, l in enumerate(lines):
                if i:
                    nodes.append(self.ev("CaptionNode.create_break()"))
                nodes.append(self.ev("CaptionNode.create_text(t)", t=l))
            cs.append(self.ev("Caption(s, e, n)", s=s, e=e, n=nodes))
        cset = self.ev("CaptionSet({'en-US': CaptionList(cs)})", cs=cs)
        self.n += 1
        return self.F.call_function(self.fn, [cset], {}, self_value=Stub("writer", {}, cls=self.fn.cls))


def transmission_us(lines):
    """upper bound of the time the writer needs for a caption: two PACs per laid-out row, one word per two
    characters, eight framing words"""
    rows = sum(max(1, math.ceil(len(l) / 32) + 1) for l in lines)
    words = 2 * rows + sum(len(l) for l in lines) // 2 + rows + 8
    return float(words * FRAME)


def caption_sets(thorough):
    n = len(LINES)
    for i in range(n):
        for spacing in ("sparse", "moderate", "tight"):
            caps, t = [], 2 * S + 123456 * i
            for k in range(3):
                lines = LINES[(i + 2 * k) % n]
                nxt = LINES[(i + 2 * (k + 1)) % n]
                dur = 1500000
                caps.append((t, t + dur, lines))
                gap = {"sparse": 6 * S, "moderate": float(transmission_us(nxt)) + 20 * float(FRAME),
                       "tight": float(transmission_us(nxt)) + 4 * float(FRAME)}[spacing]
                t = t + dur + gap
            yield spacing, caps
            if not thorough and spacing == "sparse":
                continue
    for i in range(n):
        yield "single cue", [(5 * S, 7 * S, LINES[i])]
    # the same text said again: right after the first time, after a pause, and once more - three captions, three loads
    yield "repeated text", [(5 * S, 7 * S, ["Same words."]), (7 * S, 9 * S, ["Same words."]), (12 * S, 13 * S, ["Same words."])]
    yield "repeated text", [(5 * S, 7 * S, ["two", "lines"]), (6 * S + 900000, 9 * S, ["two", "lines"])]


def words_of(lines):
    return [canonical_word(w) for l in lines for w in l.split()]


def canonical_word(w):
    return "".join(canonical(ch) for ch in w)


def explore(ctx, thorough):
    Wd = World(ctx)
    bad = {"header": [], "parity": [], "rows": [], "reread": [], "timecodes": [], "visible": [], "stamp": []}
    n = 0
    for spacing, caps in caption_sets(thorough):
        n += 1
        case = {"spacing": spacing, "captions": [(s, e, [l[:40] for l in ls]) for s, e, ls in caps]}
        try:
            doc = Wd.write(caps)
        except FoldRaise as e:
            bad["reread"].append(dict(case, raises=e.exc_name or str(e)))
            continue
        except AnalysisError as e:
            raise AnalysisError(f"SCCWriter.write cannot be folded on a small caption set: {e}")
        if not isinstance(doc, str):
            raise AnalysisError("SCCWriter.write: the folded result is not a string")
        problems, shown, instants = decode(doc)
        par = [p for p in problems if "parity" in p]
        hdr = [p for p in problems if "header" in p or "time code" in p or "four-hex" in p]
        other = [p for p in problems if p not in par and p not in hdr]
        if hdr:
            bad["header"].append(dict(case, problems=hdr[:3], document=doc[:160]))
            continue
        if par:
            bad["parity"].append(dict(case, problems=par[:3]))
        rows_bad = [p for p in other if "row" in p]
        if rows_bad:
            bad["rows"].append(dict(case, problems=rows_bad[:3]))
        if [p for p in other if p not in rows_bad]:
            bad["reread"].append(dict(case, problems=[p for p in other if p not in rows_bad][:3], document=doc[:200]))
            continue
        if any(t < 0 for t in instants) or any(a > b for a, b in zip(instants, instants[1:])):
            bad["timecodes"].append(dict(case, line_instants_us=[float(t) for t in instants]))
        if len(shown) != len(caps):
            bad["reread"].append(dict(case, captions_shown=len(shown), required=len(caps), document=doc[:300]))
            continue
        for k, (c, (s, e, lines)) in enumerate(zip(shown, caps)):
            rows = [c["rows"][r] for r in sorted(c["rows"])]
            if any(len(r) > 32 for r in rows):
                bad["rows"].append(dict(case, cue=k + 1, row_lengths=[len(r) for r in rows]))
            got_words = [w for r in rows for w in r.split()]
            want = words_of(lines)
            # a word longer than 32 columns is split over rows: compare the letters of such words, the words of the rest
            if any(len(w) > 32 for w in want):
                ok = "".join(got_words) == "".join(want)
            else:
                ok = got_words == want
            if not ok:
                bad["reread"].append(dict(case, cue=k + 1, rows=rows, required_words=want[:12]))
                break
            # broken only at spaces: joining the rows of one input line with spaces gives the line back (modulo runs of blanks)
            # (the first cue as well, whenever there is room to transmit it before its start)
            feasible = k > 0 or s - (c.get("words_before", 0) + 1) * float(FRAME) >= 0
            if feasible and abs(float(c["visible_at"]) - s) > 3 * float(FRAME) + 1:
                bad["visible"].append(dict(case, cue=k + 1, visible_at_us=float(c["visible_at"]), start_us=s,
                                           frames_off=round((float(c["visible_at"]) - s) / float(FRAME), 2)))
                break
    # _format_timestamp alone
    grid = [int(k * FRAME / 4) for k in range(0, 4 * 30 * 70)]
    for base in (59 * S, 3599 * S, 3600 * S, 35999 * S):
        grid += [int(Fr(base) * Fr(1001, 1000) + k * FRAME / 4) for k in range(-130, 131)]
    wrong = []
    for t in grid:
        try:
            got = Wd.F.call_function(Wd.ts, [t], {}, self_value=Stub("writer", {}, cls=Wd.ts.cls))
        except FoldRaise as e:
            got = f"raises {e.exc_name}"
        except AnalysisError as e:
            raise AnalysisError(f"SCCWriter._format_timestamp cannot be folded: {e}")
        frames = int(Fr(t) * 30 / 1001000 + Fr(1, 10**9))        # whole frames of non-drop time (float slack of a billionth)
        frames2 = int(Fr(t) * 30 / 1001000 - Fr(1, 10**9)) if t else 0
        want = {f"{f // 108000:02}:{f // 1800 % 60:02}:{f // 30 % 60:02}:{f % 30:02}" for f in (frames, frames2)}
        if got not in want:
            wrong.append({"microseconds": t, "time_code": got, "required": sorted(want)})
    if wrong:
        bad["stamp"].append({"instants_tried": len(grid), "wrong": wrong[:3], "wrong_count": len(wrong)})
    return Wd.fn, bad, n


def run(ctx, report, rules):
    thorough = ctx.tier == "thorough"
    fn, bad, n = ctx.memo(("scc_writer_fold", thorough), lambda: explore(ctx, thorough))
    report.covered(fn)
    report.count("scc_written_documents_folded", n)
    for key, (rule, clause, text) in rules.items():
        report.check(not bad[key], rule, fn, f"SCC writer end to end ({n} caption sets): {text}",
                     {"caption_sets": n, "mismatches": bad[key][:2]}, clause)
