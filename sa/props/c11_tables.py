"""C11 clause 1 / C08 clause 4: style vocabularies of writers and readers agree."""
import ast
import re

from ..core.tree import AnalysisError
from ..core.constfold import Folder, Stub
from ..core.astutil import walk_no_nested, call_name, short, src

SAMI = "pycaption/sami.py"
DFXP = "pycaption/dfxp/base.py"
VTT = "pycaption/webvtt.py"
STYLES = ("italics", "bold", "underline")
CSS = {"italics": ("font-style", "italic"), "bold": ("font-weight", "bold"), "underline": ("text-decoration", "underline")}


class _Self:
    pass


def run(ctx, report):
    folder = ctx.memo("folder", lambda: Folder(ctx.index))
    w = ctx.index.get_function(SAMI, "SAMIWriter._recreate_style")
    r = ctx.index.get_function(SAMI, "SAMIReader._translate_css_property")
    for f in (w, r):
        report.covered(f)
    for st in STYLES:
        try:
            css = folder.call_function(w, [{st: True}], self_value=_Self())
        except AnalysisError as e:
            raise AnalysisError(f"SAMIWriter._recreate_style cannot be folded: {e}")
        ok_w = css == {CSS[st][0]: CSS[st][1]}
        back = {}
        if isinstance(css, dict) and len(css) == 1:
            (k, v), = css.items()
            try:
                folder.call_function(r, [back, k, v], self_value=_Self())
            except AnalysisError as e:
                raise AnalysisError(f"SAMIReader._translate_css_property cannot be folded: {e}")
        report.check(ok_w and back == {st: True}, "R-TABLE-INVERSE", w, f"SAMI: {st} -> {css} -> {back}",
                     {"written": css, "read_back": back, "required_css": {CSS[st][0]: CSS[st][1]}}, "1")
    # negative cases: a flag that is False writes nothing; a CSS value that is not the style's own value reads nothing
    neg = []
    for st in STYLES:
        try:
            css0 = folder.call_function(w, [{st: False}], self_value=_Self())
        except AnalysisError as e:
            raise AnalysisError(f"SAMIWriter._recreate_style cannot be folded: {e}")
        if css0 not in ({}, {st: False}):
            neg.append({"writer": {st: False}, "written": css0})
    for prop, val in (("font-style", "normal"), ("font-weight", "normal"), ("text-decoration", "none"),
                      ("font-weight", "italic"), ("font-style", "bold"), ("text-decoration", "italic")):
        back0 = {}
        try:
            folder.call_function(r, [back0, prop, val], self_value=_Self())
        except AnalysisError as e:
            raise AnalysisError(f"SAMIReader._translate_css_property cannot be folded: {e}")
        if any(back0.get(k) for k in STYLES):
            neg.append({"reader": f"{prop}:{val}", "read": back0})
    report.check(not neg, "R-TABLE-INVERSE", r, "SAMI: a style that is off writes nothing; a foreign CSS value switches nothing on",
                 {"mismatches": neg[:4]}, "1")
    # non-style keys pass through unchanged
    css = folder.call_function(w, [{"color": "red", "font-family": "x"}], self_value=_Self())
    report.check(css == {"color": "red", "font-family": "x"}, "R-TABLE-INVERSE", w, "SAMI: other style rules pass through unchanged",
                 {"written": css}, "1")
    t = ctx.index.get_function(SAMI, "SAMIReader._get_style_name_from_tag")
    report.covered(t)
    got = {tag: folder.call_function(t, [tag], self_value=_Self()) for tag in ("i", "b", "u")}
    report.check(got == {"i": "italics", "b": "bold", "u": "underline"}, "R-TABLE-REF", t, "SAMI: i / b / u elements mean italics / bold / underline",
                 got, "1")
    tt = ctx.index.get_function(SAMI, "SAMIReader._translate_tag")
    ifs = [n for n in walk_no_nested(tt.node) if isinstance(n, ast.If) and
           any("_get_style_name_from_tag" in src(b_) for b_ in n.body)]
    if len(ifs) != 1:
        # (dispatch spelled otherwise - a table of handlers, say: which elements become style nodes is decided by the SAMI
        # reader fold on documents with i / b / u / font / span elements)
        report.info("R-STRUCTURE", tt, "_translate_tag: the branch that creates style nodes is not spelled as one `if` "
                    "(spelling not recognised)", {"clause_decided_by": "R-DOC-STYLE on the generated SAMI documents"}, None)
    else:
        tagname = tt.params[1]
        selected = []
        for nm in ("i", "b", "u", "I", "br", "span", "p", "em", "strong", "font", "x"):
            try:
                if folder.eval_in(tt.module, ifs[0].test, {tagname: Stub("tag", {"name": nm})}):
                    selected.append(nm)
            except AnalysisError as e:
                # (the test reads a local computed earlier in the routine: not a closed expression over the tag - the same
                # clause is decided by the SAMI reader fold)
                selected = None
                report.info("R-STRUCTURE", tt, "_translate_tag: the test of the branch that creates style nodes is not a closed "
                            "expression over the tag (spelling not recognised)",
                            {"reason": str(e)[:200], "clause_decided_by": "R-DOC-STYLE on the generated SAMI documents"}, None)
                break
        if selected is not None:
            report.check(selected == ["i", "b", "u"], "R-COMPLETE-CASES", (tt, ifs[0]),
                         "SAMI: exactly the i, b, u elements are turned into style nodes",
                         {"test": src(ifs[0].test), "element_names_selected": selected}, "1")
    # DFXP
    dw = ctx.index.get_function(DFXP, "_recreate_style")
    dr = ctx.index.get_function(DFXP, "DFXPReader._convert_style")
    for f in (dw, dr):
        report.covered(f)
    # both directions are folded (constant evaluation of the source on stub objects)
    def write_(content):
        try:
            return folder.call_function(dw, [dict(content), Stub("dfxp-document", {}, {"find": lambda *a, **k: None})])
        except AnalysisError as e:
            raise AnalysisError(f"DFXP _recreate_style cannot be folded: {e}")

    def read_(attrs):
        try:
            return folder.call_function(dr, [Stub("tag", {"attrs": dict(attrs), "name": "span"})], self_value=Stub("reader"))
        except AnalysisError as e:
            raise AnalysisError(f"DFXPReader._convert_style cannot be folded: {e}")
    wi = write_({"italics": True})
    ri = read_(wi) if isinstance(wi, dict) else None
    report.check(wi == {"tts:fontStyle": "italic"} and ri == {"italics": True}, "R-TABLE-INVERSE", dw,
                 "DFXP: italics <-> tts:fontStyle=\"italic\"", {"written": wi, "read_back": ri}, "1")
    # reader: bold / underline are read although DFXPWriter does not write them; foreign values switch nothing on
    rb = {"bold": read_({"tts:fontWeight": "bold"}), "underline": read_({"tts:textDecoration": "underline"}),
          "underline among others": read_({"tts:textDecoration": "noOverline underline"})}
    negd = {str(a): read_(a) for a in ({"tts:fontStyle": "normal"}, {"tts:fontWeight": "normal"}, {"tts:textDecoration": "none"},
                                      {"tts:fontStyle": "bold"}, {"tts:fontWeight": "italic"}, {"tts:color": "italic"})}
    # the whole TTML vocabulary of the three attributes (TTML 1, 8.2.9 / 8.2.10 / 8.2.20): every value and every pair of
    # text-decoration tokens
    import itertools
    deco = ("none", "underline", "noUnderline", "lineThrough", "noLineThrough", "overline", "noOverline")
    for toks in list(itertools.permutations(deco, 1)) + list(itertools.permutations(deco, 2)):
        v = " ".join(toks)
        r_ = read_({"tts:textDecoration": v})
        if bool(r_.get("underline")) != ("underline" in toks) or r_.get("italics") or r_.get("bold"):
            negd[f"tts:textDecoration={v!r}"] = dict(r_, **{"<required underline>": "underline" in toks})
            rb["underline"] = None
    for v in ("normal", "oblique", "reverseOblique", "Italic "):
        r_ = read_({"tts:fontStyle": v})
        if any(r_.get(k) for k in STYLES):
            negd[f"tts:fontStyle={v!r}"] = dict(r_, **{"<required>": "no style"})
            rb["underline"] = None
    ok_pos = rb["bold"] == {"bold": True} and rb["underline"] == {"underline": True} and rb["underline among others"] == {"underline": True}
    ok_neg = all(not any(v.get(k) for k in STYLES) for k_, v in negd.items() if not k_.startswith("tts:"))
    report.check(ok_pos and ok_neg, "R-TABLE-REF", dr, "DFXP reader: tts:fontStyle=italic / fontWeight=bold / textDecoration~underline "
                 "and nothing else switch a style on", {"positive": rb, "negative": negd}, "1")
    pairs = {"font-family": "tts:fontFamily", "font-size": "tts:fontSize", "color": "tts:color", "text-align": "tts:textAlign"}
    bad = []
    for key, attr in pairs.items():
        wv = write_({key: "V1"})
        if wv != {attr: "V1"}:
            bad.append({"writer": key, "written": wv})
            continue
        rv = read_(wv)
        if rv != {key: "V1"}:
            bad.append({"reader": attr, "read_back": rv})
    report.check(not bad, "R-TABLE-INVERSE", dw, "DFXP: font-family / font-size / color / text-align use the same attribute both ways",
                 {"mismatches": bad}, "1")
    sami_class_case(ctx, report, folder)
    # WebVTT
    f = ctx.index.get_function(VTT, "WebVTTWriter._convert_style_to_text_tag")
    report.covered(f)
    want = {"italics": ["<i>", "</i>"], "bold": ["<b>", "</b>"], "underline": ["<u>", "</u>"], "color": ["", ""]}
    got = {k: folder.call_function(f, [k]) for k in want}
    report.check(got == want, "R-TABLE-REF", f, "WebVTT: italics / bold / underline are wrapped in matching i / b / u tags",
                 {"found": got}, "1")


def sami_class_case(ctx, report, folder):
    """Style classes are found again: the stylesheet parser stores selectors lower-cased, so the
    reader must lower-case the class / id it looks up (folded on a stub tag with mixed-case names)."""
    ta = ctx.index.get_function(SAMI, "SAMIReader._translate_attrs")
    cp = ctx.index.get_function(SAMI, "SAMIParser._css_parse")
    for f in (ta, cp):
        report.covered(f)
    # the stylesheet side, folded: SAMIParser._css_parse on a sheet with mixed-case class and id selectors (cssutils replaced by
    # the CSS-subset model of sa/core/samimodels.py)
    from ..core.constfold import Folder, FoldRaise
    from ..core.samimodels import SAMI_MODELS
    from ..core.soupmodel import Soup
    F2 = Folder(ctx.index)
    F2.object_classes = "*"
    F2.external_models = dict({"bs4.BeautifulSoup": Soup}, **SAMI_MODELS)
    pcls = ctx.index.get_class(SAMI, "SAMIParser")
    try:
        me = F2.eval_in("pycaption.sami", ast.parse("SAMIParser()", mode="eval").body, {})
        sheet = F2.call_function(cp, [".EmPh {font-style: italic;}\n#BiG {font-size: 8pt;}\nP {color: white;}"], {}, self_value=me)
    except FoldRaise as e:
        raise AnalysisError(f"SAMIParser._css_parse raises {e.exc_name} on a three-rule stylesheet")
    keys = sorted(sheet) if isinstance(sheet, dict) else None
    if keys is None:
        raise AnalysisError("SAMIParser._css_parse: the folded result is not a dict of rules")
    rcls = ctx.index.get_class(SAMI, "SAMIReader")
    got = {}
    for label, attrs in (("class", {"class": ["EmPh"]}), ("id", {"id": "BiG"})):
        try:
            out = folder.call_function(ta, [Stub("tag", {"attrs": attrs, "name": "span"})], self_value=Stub("reader", {}, cls=rcls))
        except AnalysisError as e:
            raise AnalysisError(f"SAMIReader._translate_attrs cannot be folded: {e}")
        got[label] = out.get("class") if isinstance(out, dict) else out
    report.check(got["class"] in keys and got["id"] in keys, "R-TABLE-SIBLING", ta,
                 "SAMI: a class / id reference is normalised like the stylesheet's selectors (the keys '.EmPh' / '#BiG' are stored "
                 "under are the keys 'EmPh' / 'BiG' are looked up with)",
                 {"stylesheet_keys": keys, "folded_lookups": got,
                  "why": "'.Emph {font-style: italic}' is stored as 'emph': looking up 'Emph' finds nothing and the italics are lost"},
                 "1")
