"""C01 / C04 (text readers): `WebVTTReader.read` and `MicroDVDReader.read` folded on documents
generated from an abstract caption model by serialisers written here from the format
specifications (the SRT reader has its own module, srt_doc_fold).

The reader's source is folded by the checker's evaluator (nothing of pycaption is imported or
run; the stdlib `re` is applied to the pattern constants).  Each document is a list of cues
(instants, payload lines); every payload line comes from a pool of (source spelling, what a
conformant consumer displays) pairs, so the expected captions are known by construction:

  WebVTT   header with or without a title / a NOTE block; cue identifiers (none, a number, a
           word); timing lines with and without hours and with cue settings; NOTE comment
           blocks between cues; one or two blank lines; trailing newline or not; payload lines:
           plain, the character references &amp; &lt; &gt; &nbsp; (and the doubly encoded
           '&amp;lt;'), the tags i b u c.class ruby/rt lang and timestamp tags (vanish), voice
           tags (become 'Name: '), an unknown tag (stays literal), and lines that merely LOOK
           like structure inside a cue ('NOTE to self', 'WEBVTT', a bare number)
  MicroDVD optional {0}{0}fps / {1}{1}fps header line, '|' line separators, empty lines between
           them, frame numbers at 25 fps and at a declared rate

Obligations: one caption per cue, in order (C01/4); the cue's instants (C01); each caption's
lines are the displayed lines, up to trimming and white-space collapsing (C04).
"""
import ast
import itertools
import re
import zlib
from fractions import Fraction

from ..core.tree import AnalysisError
from ..core.constfold import Folder, Stub, FoldRaise

S = 1000000
NBSP = " "

VTT_LINES = [
    ("hello", "hello"),
    ("a &amp; b &lt;c&gt;", "a & b <c>"),
    ("&amp;lt;", "&lt;"),
    ("<i>it</i> <b>b</b><u>u</u>", "it bu"),
    ("<v Bob>hi there", "Bob: hi there"),
    ("<v.loud Bob>hi</v>", "Bob: hi"),
    ("<v\tFred>tab before the name", "Fred: tab before the name"),
    ("<v.loud-x.first Fred>classes with a hyphen", "Fred: classes with a hyphen"),
    ("<c.yellow>col</c>our", "colour"),
    ("<ruby>base<rt>top</rt></ruby>", "basetop"),
    ("<lang en>x</lang>y", "xy"),
    ("a<00:00:01.500>b", "ab"),
    ("<foo>lit</foo>", "<foo>lit</foo>"),
    ("NOTE to self", "NOTE to self"),
    ("NOTE", "NOTE"),
    ("WEBVTT", "WEBVTT"),
    ("123", "123"),
    ("x&nbsp;y", "x" + NBSP + "y"),
    ("  padded  ", "padded"),
    ("<v Fred>Hi there! <v Bob>Hey you", "Fred: Hi there! Bob: Hey you"),
    ("<i><v Ann Lee>Whispering</v></i>", "Ann Lee: Whispering"),
    ("...", "..."),
    ("? !", "? !"),
    ("Ame\u0301lie is 10 \u212b tall", "Ame\u0301lie is 10 \u212b tall"),      # decomposed accent, ANGSTROM SIGN: code points kept
]
VTT_TIMES = [("00:01.000", "00:02.500", S, 2500000), ("00:00:03.000", "00:00:04.000", 3 * S, 4 * S),
             ("01:00:05.250", "01:00:06.000", 3605250000, 3606 * S), ("100:00:07.000", "100:00:08.000", 360007 * S, 360008 * S)]


def norm(line):
    line = re.sub(r"\{[a-zA-Z]:[^{}]*\}", "", line)          # MicroDVD control codes carry no characters
    return re.sub(r"[ \t]+", " ", line.replace(NBSP, " ")).strip()


def vtt_documents(thorough):
    pool = list(range(len(VTT_LINES)))
    # every payload line alone, first and second in a cue, in the first and in a later cue
    for header, ident, sep, tail, settings in itertools.product(
            ("WEBVTT", "WEBVTT - title", "WEBVTT\n\nNOTE a comment\nover two lines"), (None, "1", "intro"),
            ("\n\n", "\n\n\n", "\n\nNOTE between cues\n\n"), ("", "\n", "\n\n"), ("", " line:0 position:20%")):
        light = (header, ident, sep, tail, settings) != ("WEBVTT", None, "\n\n", "\n", "")
        if light and not thorough and zlib.crc32(repr((header, ident, sep, tail, settings)).encode()) % 7:
            continue
        for k, p in enumerate(pool):
            if light and (k + len(header) + len(sep)) % 5:
                continue
            cues = [[p], [pool[(k + 3) % len(pool)], p], [pool[(k + 5) % len(pool)]]]
            out, want = [header], []
            for i, cue in enumerate(cues):
                a, b, s, e = VTT_TIMES[i % len(VTT_TIMES)] if i else VTT_TIMES[k % len(VTT_TIMES)]
                if i and s <= want[-1][0]:
                    a, b, s, e = VTT_TIMES[-1]
                    if s <= want[-1][0]:
                        continue
                block = ([ident if i == 0 else str(i + 1)] if ident else []) + [f"{a} --> {b}{settings if i == 0 else ''}"] \
                    + [VTT_LINES[x][0] for x in cue]
                out.append("\n".join(block))
                want.append((s, e, [norm(VTT_LINES[x][1]) for x in cue]))
            doc = out[0] + "\n\n" + sep.join(out[1:]) + tail
            yield doc, want
            if not light:
                # the same document with the other two line terminators the WebVTT grammar allows
                yield doc.replace("\n", "\r\n"), want
                yield doc.replace("\n", "\r"), want


def vtt_special_documents():
    """cues WITHOUT payload (a timing line followed by a blank line): they yield no caption and swallow nothing - neither a
    NOTE block nor the next cue's identifier"""
    a, b, s, e = VTT_TIMES[0]
    yield (f"WEBVTT\n\n{a} --> {b}\n\nNOTE a comment after an empty cue\n\n01:00:03.000 --> 01:00:04.000\nx\n",
           [(3603 * 1000000, 3604 * 1000000, ["x"])])
    yield (f"WEBVTT\n\n{a} --> {b}\n\nintro\n01:00:03.000 --> 01:00:04.000\nx\n\n01:00:05.000 --> 01:00:06.000\n\n",
           [(3603 * 1000000, 3604 * 1000000, ["x"])])
    yield (f"WEBVTT\n\n{a} --> {b}\nfirst\n\n01:00:03.000 --> 01:00:04.000\n\nNOTE\nover two lines\n\n01:00:05.000 --> 01:00:06.000\nlast\n",
           [(s, e, ["first"]), (3605 * 1000000, 3606 * 1000000, ["last"])])
    # the arrow of a timing line is set off by blanks OR tabs (one or more)
    yield ("WEBVTT\n\n00:01.000\t-->\t00:02.000\nfirst\n\n00:03.250 \t--> \t 00:04.000 line:0\nsecond\n\n00:05.000  -->  00:06.000\nthird\n",
           [(1000000, 2000000, ["first"]), (3250000, 4000000, ["second"]), (5000000, 6000000, ["third"])])
    # a cue that starts at the very beginning of the programme (instant zero is an instant like any other, also under strict
    # timing checks), and one that starts and ends there
    yield ("WEBVTT\n\n00:00.000 --> 00:02.000\nfrom the start\n\n00:00:02.000 --> 00:00:04.000\nx\n",
           [(0, 2 * 1000000, ["from the start"]), (2 * 1000000, 4 * 1000000, ["x"])])
    yield ("WEBVTT\n\n00:00:00.000 --> 00:00:00.000\nzero length at zero\n\n00:00:02.000 --> 00:00:04.000\nx\n",
           [(0, 0, ["zero length at zero"]), (2 * 1000000, 4 * 1000000, ["x"])])


def microdvd_documents():
    lines_pool = [("hello", ["hello"]), ("a|b", ["a", "b"]), ("a||b", ["a", "b"]), ("one|two|three", ["one", "two", "three"]),
                  ("x & <y>", ["x & <y>"]), ("12", ["12"]),
                  # control codes: whatever the reader does with the codes themselves, the WORDS survive
                  ("{y:i}Hello {c:$0000ff}blue{c:$ffffff} world|plain line", ["Hello blue world", "plain line"]),
                  ("so-called {experts} agree", ["so-called {experts} agree"])]
    for fps_line, fps in ((None, 25), ("{0}{0}25", 25), ("{0}{0}30", 30), ("{0}{0}23.976", Fraction("23.976"))):
        for k in range(len(lines_pool)):
            for tail in ("\n", ""):
                doc, want = ([fps_line] if fps_line else []), []
                for i in range(3):
                    txt, shown = lines_pool[(k + i) % len(lines_pool)]
                    f0, f1 = 25 * (i + 1) + i, 25 * (i + 2)
                    doc.append("{%d}{%d}%s" % (f0, f1, txt))
                    want.append((int(Fraction(f0 * 10**6) / fps), int(Fraction(f1 * 10**6) / fps), shown))
                yield "\n".join(doc) + tail, want


def _read_back(r, what):
    from .foldutil import captions_by_language
    by_lang = captions_by_language(r, what=what)
    if len(by_lang) != 1:
        raise AnalysisError(f"{what}: folded result is not a one-language CaptionSet")
    lst = list(by_lang.values())[0]
    got = []
    for c in lst:
        rows, cur = [], ""
        for nd in c.attrs["nodes"]:
            t = nd.attrs.get("type_")
            if t == 3:
                rows.append(cur)
                cur = ""
            elif t == 1:
                cur += nd.attrs.get("content")
        rows.append(cur)
        got.append((c.attrs.get("start"), c.attrs.get("end"), [norm(x) for x in rows]))
    return got


def explore(ctx, thorough):
    F = Folder(ctx.index)
    F.object_classes = ("Caption", "CaptionList", "CaptionNode", "CaptionSet")
    out = {}
    for name, path, q, docs, attrs in (
            ("WebVTT", "pycaption/webvtt.py", "WebVTTReader.read", itertools.chain(((d, w, False) for d, w in vtt_documents(thorough)),
                                                                                      ((d, w, True) for d, w in vtt_special_documents())),
             {"ignore_timing_errors": True, "time_shift_microseconds": 0}),
            ("MicroDVD", "pycaption/microdvd.py", "MicroDVDReader.read", ((d, w, False) for d, w in microdvd_documents()), {})):
        fn = ctx.index.get_function(path, q)
        init = fn.cls.find_method("__init__")
        bad = {"cues": [], "times": [], "text": []}
        n = 0
        # WebVTT reader options (strict timing, a time shift, both): a well-formed document reads the same, shifted
        option_sets = [({}, 0)]
        if name == "WebVTT":
            option_sets += [({"ignore_timing_errors": False}, 0), ({"time_shift_milliseconds": 5000}, 5000000),
                            ({"ignore_timing_errors": False, "time_shift_milliseconds": 5000}, 5000000),
                            ({"ignore_timing_errors": False, "time_shift_milliseconds": 400}, 400000)]
        jobs = []
        for i_, (doc, want, every_option) in enumerate(docs):
            jobs.append((doc, want, {}))
            if len(option_sets) > 1 and (i_ % 6 == 0 or every_option):
                for opts, shift in option_sets[1:]:
                    jobs.append((doc, [(s_ + shift, e_ + shift, t_) for s_, e_, t_ in want], opts))
        for doc, want, opts in jobs:
            n += 1
            me = Stub("reader", {}, cls=fn.cls)
            try:
                if init is not None:
                    F.call_function(init, [], dict(opts), self_value=me)
                for k_, v_ in attrs.items():
                    me.attrs.setdefault(k_, v_)
                r = F.call_function(fn, [doc], {}, self_value=me)
            except FoldRaise as e:
                bad["cues"].append({"document": doc[:200], "options": opts, "raises": f"{e.exc_name}: {e}"[:160], "required_cues": len(want)})
                continue
            except AnalysisError as e:
                raise AnalysisError(f"{q} cannot be folded on {doc[:40]!r}: {e}")
            got = _read_back(r, q)
            case = {"document": doc[:240], **({"options": opts} if opts else {})}
            if len(got) != len(want):
                bad["cues"].append(dict(case, captions=len(got), required=len(want), read=[g[2] for g in got][:4]))
            elif [(a, b) for a, b, _ in got] != [(a, b) for a, b, _ in want]:
                bad["times"].append(dict(case, times=[(a, b) for a, b, _ in got], required=[(a, b) for a, b, _ in want]))
            elif [t for _, _, t in got] != [t for _, _, t in want]:
                i = next(i for i in range(len(got)) if got[i][2] != want[i][2])
                bad["text"].append(dict(case, cue=i + 1, text=got[i][2], required=want[i][2]))
        out[name] = (fn, bad, n)
    return out


def run(ctx, report, rules):
    """rules: {key: (rule, clause, text)}"""
    thorough = ctx.tier == "thorough"
    out = ctx.memo(("reader_doc_fold", thorough), lambda: explore(ctx, thorough))
    total = 0
    for name, (fn, bad, n) in out.items():
        report.covered(fn)
        total += n
        for key, (rule, clause, text) in rules.items():
            report.check(not bad[key], rule, fn, f"{name} reader on {n} generated documents: {text}",
                         {"documents": n, "mismatches": bad[key][:2]}, clause)
    report.count("reader_documents_folded", total)
