"""C01 / C03 (SRT documents): `SRTReader.read` folded on small generated documents.

Documents are generated from the SubRip grammar - 1..3 cues; a cue is its number, a timing line,
1..2 text lines, then a separator - with the variation the format allows in practice: the
separating blank line may be empty or hold only blanks or a tab, there may be one or two of
them, the last cue may or may not be followed by a line break, line ends are LF or CRLF, and a
text line may be a bare number.  The generator knows which cues it wrote, so the expected
result needs no second parser: one caption per non-empty cue, in order, with the instants of
its timing line and its text lines separated by breaks.  (Cues WITHOUT text are left out: what
the reader makes of them is pinned by tests/test_srt.py::test_extra_empty_line.  Text is compared
up to white-space-only lines: the reader keeps a blank-holding separator line as text, which no
property speaks about.)
"""
import ast
import itertools

from ..core.tree import AnalysisError
from ..core.constfold import Folder, Stub, FoldRaise

SRT = "pycaption/srt.py"
S = 1000000
TEXTS = [["hello"], ["two", "lines"], ["42"], ["- dash <i>x</i>"]]
SEPS = ["", " ", "\t", "\n", " \n"]        # content of the blank line(s) between cues ("\n": two blank lines)


def documents(max_cues):
    for k in range(1, max_cues + 1):
        for texts in itertools.product(range(len(TEXTS)), repeat=k):
            for sep in SEPS:
                for tail in ("", "\n", "\n\n"):
                    for nl in ("\n", "\r\n"):
                        if k == 3 and (nl == "\r\n" or tail == "\n\n") and sep not in ("", " "):
                            continue
                        lines, want = [], []
                        for i, t in enumerate(texts):
                            start, end = (2 * i + 1) * S + 500000, (2 * i + 2) * S + 1000
                            lines.append(str(i + 1))
                            lines.append(f"00:00:{2 * i + 1:02d},500 --> 00:00:{2 * i + 2:02d},001")
                            lines.extend(TEXTS[t])
                            if i < k - 1:
                                lines.extend(sep.split("\n"))
                            if TEXTS[t]:
                                want.append((start, end, list(TEXTS[t])))
                        yield nl.join(lines) + tail.replace("\n", nl), want
    # consecutive cues that denote the same instants (spelled alike or not), touching cues, cues out of time order: still one
    # caption per cue, in DOCUMENT order
    H = 3600 * S
    specials = [
        [("00:00:01,500", "00:00:02,001", 1500000, 2001000), ("00:00:01,500", "00:00:02,001", 1500000, 2001000)],
        [("25:00:10,000", "25:00:12,000", 25 * H + 10 * S, 25 * H + 12 * S), ("25:00:10", "25:00:12", 25 * H + 10 * S, 25 * H + 12 * S),
         ("25:00:13,5", "25:00:14,25", 25 * H + 13 * S + 5000, 25 * H + 14 * S + 25000)],
        [("00:00:05,000", "00:00:06,000", 5 * S, 6 * S), ("00:00:01,000", "00:00:02,000", S, 2 * S), ("00:00:02,000", "00:00:05,000", 2 * S, 5 * S)],
    ]
    for cues in specials:
        lines, want = [], []
        for i, (a, b, s_, e_) in enumerate(cues):
            lines += [str(i + 1), f"{a} --> {b}"] + TEXTS[i % 2] + [""]
            want.append((s_, e_, list(TEXTS[i % 2])))
        yield "\n".join(lines), want
    # a cue whose TEXT quotes something that looks like the head of a cue (a number line, then a line with an arrow): text it is -
    # only a blank line ends a cue
    quote = ["The file on screen reads:", "7", "00:00:05,000 --> 00:00:06,000", "and nothing more."]
    yield "\n".join(["1", "00:00:01,000 --> 00:00:02,000"] + quote + ["", "2", "00:00:08,000 --> 00:00:09,000", "next", ""]), \
        [(S, 2 * S, list(quote)), (8 * S, 9 * S, ["next"])]
    yield "\n".join(["1", "00:00:01,000 --> 00:00:02,000", "a --> b", "12", "", "2", "00:00:08,000 --> 00:00:09,000", "34", "x"]), \
        [(S, 2 * S, ["a --> b", "12"]), (8 * S, 9 * S, ["34", "x"])]


def run(ctx, report, rules, max_cues=None):
    if max_cues is None:
        max_cues = 3 if ctx.tier == "thorough" else 2
    bad, n, fn = ctx.memo(("srt_doc_fold", max_cues), lambda: explore(ctx, max_cues))
    report.covered(fn)
    report.count("srt_documents_folded", n)
    for key, (rule, clause, text) in rules.items():
        report.check(not bad[key], rule, fn, text, {"documents": n, "mismatches": bad[key][:3]}, clause)


def explore(ctx, max_cues):
    F = Folder(ctx.index)
    F.object_classes = ("Caption", "CaptionList", "CaptionNode", "CaptionSet")
    fn = ctx.index.get_function(SRT, "SRTReader.read")
    bad = {"cues": [], "times": [], "text": []}
    n = 0
    for doc, want in documents(max_cues):
        n += 1
        me = Stub("reader", {}, cls=fn.cls)
        try:
            r = F.call_function(fn, [doc], {}, self_value=me)
        except FoldRaise as e:
            if not want and e.exc_name == "CaptionReadNoCaptions":
                continue
            bad["cues"].append({"document": doc, "raises": e.exc_name or str(e), "required_cues": len(want)})
            continue
        except AnalysisError as e:
            raise AnalysisError(f"SRTReader.read cannot be folded on {doc[:40]!r}: {e}")
        from .foldutil import captions_by_language
        by_lang = captions_by_language(r, F, "SRTReader.read")
        if len(by_lang) != 1:
            raise AnalysisError("SRTReader.read: folded result is not a one-language CaptionSet")
        lst = list(by_lang.values())[0]
        got = []
        for c in lst:
            rows, cur = [], ""
            for nd in c.attrs["nodes"]:
                t = nd.attrs.get("type_")
                if t == 3:
                    rows.append(cur)
                    cur = ""
                elif t == 1:
                    cur += nd.attrs.get("content")
            rows.append(cur)
            rows = [r_ for r_ in rows if r_.strip()]
            got.append((c.attrs.get("start"), c.attrs.get("end"), rows))
        case = {"document": doc}
        if len(got) != len(want):
            bad["cues"].append(dict(case, captions=len(got), required=len(want), read=[g[2] for g in got]))
        elif [(a, b) for a, b, _ in got] != [(a, b) for a, b, _ in want]:
            bad["times"].append(dict(case, times=[(a, b) for a, b, _ in got], required=[(a, b) for a, b, _ in want]))
        elif [t for _, _, t in got] != [t for _, _, t in want]:
            bad["text"].append(dict(case, text=[t for _, _, t in got], required=[t for _, _, t in want]))
    return bad, n, fn
