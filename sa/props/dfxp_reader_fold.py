"""C01 / C04 / C11 / C12 / C14 (DFXP reader) and the DFXP round trip: `DFXPReader.read` folded on TTML
documents serialised here from an abstract model, and `DFXPWriter.write` -> `DFXPReader.read` folded
back to back.

The reader parses with BeautifulSoup's html.parser tree builder; inside the evaluator that is the
model of sa/core/soupmodel.py, which drives the SAME stdlib tokenizer (html.parser) and applies
bs4's tree-building rules (documented there).  Everything else - the layout-aware parser class,
the scraper, the reader, the geometry and caption classes - is pycaption's source, folded by the
checker's evaluator.

Documents (compact and indented over several source lines): one or two divs with xml:lang or
without; p elements with begin/end in every time-expression form or begin+dur; text with the five
XML references, a doubly encoded reference, line breaks, inline spans (italic by attribute, by a
referenced style); regions referenced from div, p or span.  (Text wrapped over several source lines
is NOT generated: what the reader does with it is the recorded finding of C04's R-CAPTURE-TOTAL rule, decided
there on the capture pattern for all texts.)

Expected, by construction: per language the cues in order with their instants; each cue's lines as
a conformant consumer shows them (references decoded once, br = line break, spans contribute no
characters); the italic characters; the effective layout of
every text node = the region referenced by the nearest of span / p / div.
"""
import ast
import re
from xml.sax.saxutils import escape

from ..core.tree import AnalysisError
from ..core.constfold import Folder, Stub, FoldRaise
from ..core.soupmodel import Soup

S = 1000000
HEAD = ('<?xml version="1.0" encoding="utf-8"?>\n<tt xml:lang="{lang}" xmlns="http://www.w3.org/ns/ttml" '
        'xmlns:tts="http://www.w3.org/ns/ttml#styling">')
REGIONS = {
    "top": {"tts:origin": "10% 10%", "tts:extent": "80% 20%", "tts:textAlign": "left", "tts:displayAlign": "before"},
    "low": {"tts:origin": "25% 70%", "tts:extent": "50% 10%", "tts:textAlign": "center", "tts:displayAlign": "after"},
    "pad": {"tts:origin": "5% 5%", "tts:extent": "90% 90%", "tts:padding": "1% 2% 3% 4%", "tts:textAlign": "end",
            "tts:displayAlign": "center"},
}
STYLES = {"emph": {"tts:fontStyle": "italic"}, "plain": {"tts:color": "white"}}
# chained referential styling: a style that refers to another one (ids chosen to sort before and after the referenced one)
CHAINED = {"chain-a": {"style": "emph"}, "zz-chain": {"style": "emph"}, "a-chain-of-two": {"style": "chain-a"}}
H_ALIGN = {"left": "LEFT", "center": "CENTER", "right": "RIGHT", "start": "START", "end": "END"}
V_ALIGN = {"before": "TOP", "center": "CENTER", "after": "BOTTOM"}


def ser_content(items, indent):
    out = ""
    for it in items:
        if isinstance(it, str):
            out += escape(it)
        elif it[0] == "raw":          # a literal piece of markup text, e.g. '&amp;lt;' or a character reference
            out += it[1]
        elif it[0] == "br":
            out += "<br/>" + (indent or "")
        elif it[0] == "span":
            at = "".join(f' {k}="{escape(v, {chr(34): "&quot;"})}"' for k, v in it[1].items())
            out += f"<span{at}>{ser_content(it[2], indent)}</span>"
    return out


def serialise(doc, pretty):
    nl, ind = ("\n", "  ") if pretty else ("", "")
    out = [HEAD.format(lang=doc.get("tt_lang", "en"))]
    out.append(f"{ind}<head>{nl}{ind*2}<styling>")
    for sid, attrs in dict(STYLES, **doc.get("styles", {})).items():
        out.append(f'{ind*3}<style xml:id="{sid}"' + "".join(f' {k}="{v}"' for k, v in attrs.items()) + "/>")
    out.append(f"{ind*2}</styling>{nl}{ind*2}<layout>")
    for rid, attrs in REGIONS.items():
        out.append(f'{ind*3}<region xml:id="{rid}"' + "".join(f' {k}="{v}"' for k, v in attrs.items()) + "/>")
    out.append(f"{ind*2}</layout>{nl}{ind}</head>{nl}{ind}<body>")
    for div in doc["divs"]:
        at = (f' xml:lang="{div["lang"]}"' if div.get("lang") else "") + (f' region="{div["region"]}"' if div.get("region") else "")
        out.append(f"{ind*2}<div{at}>")
        for p in div["ps"]:
            pa = f' begin="{p["begin"]}"' + (f' end="{p["end"]}"' if "end" in p else f' dur="{p["dur"]}"')
            pa += (f' region="{p["region"]}"' if p.get("region") else "") + (f' style="{p["style"]}"' if p.get("style") else "")
            inner = ser_content(p["content"], (nl + ind * 4) if pretty else "")
            if pretty:
                out.append(f"{ind*3}<p{pa}>{nl}{ind*4}{inner}{nl}{ind*3}</p>")
            else:
                out.append(f"<p{pa}>{inner}</p>")
        out.append(f"{ind*2}</div>")
    out.append(f"{ind}</body>{nl}</tt>")
    return nl.join(out)


def shown(items, italic=False, region=None):
    """[(char, italic?, region)] as a conformant consumer lays the content out"""
    out = []
    for it in items:
        if isinstance(it, str):
            out += [(ch, italic, region) for ch in it]
        elif it[0] == "raw":
            out += [(ch, italic, region) for ch in it[2]]
        elif it[0] == "br":
            out.append(("\n", False, region))
        elif it[0] == "span":
            a = it[1]
            ital = italic
            if "tts:fontStyle" in a:
                ital = a["tts:fontStyle"] == "italic"
            elif a.get("style") in STYLES and "tts:fontStyle" in STYLES[a["style"]]:
                ital = STYLES[a["style"]]["tts:fontStyle"] == "italic"
            elif a.get("style") in CHAINED:
                ital = True
            out += shown(it[2], ital, a.get("region") or region)
    return out


def norm(s):
    return re.sub(r"\s+", " ", s.replace(" ", " ")).strip()


TIMES = [("00:00:01.000", "00:00:02.500", S, 2500000), ("1s", "2.5s", S, 2500000), ("1500ms", "00:00:03", 1500000, 3 * S),
         ("00:00:04:15", "00:00:05.25", 4500000, 5250000), ("0.1m", "7s", 6 * S, 7 * S), ("01:00:00.000", "3601s", 3600 * S, 3601 * S)]

CONTENTS = [
    ["hello"],
    ["a & b <c> \"q\" 'apos'"],
    [("raw", "&amp;lt; &#38; &#x26;", "&lt; & &")],
    ["one", ("br",), "two"],
    ["plain ", ("span", {"tts:fontStyle": "italic"}, ["slanted"]), " end"],
    [("span", {"style": "emph"}, ["styled"]), " after"],
    [("span", {"tts:fontStyle": "italic", "region": "low"}, ["low"]), ("br",), "rest"],
    ["x", ("span", {"tts:fontStyle": "normal"}, ["y"]), "z"],
    [("span", {"tts:fontStyle": "italic"}, ["Hello"]), " ", ("span", {"tts:fontWeight": "bold"}, ["world"])],
    # captions without a letter or digit (hesitation, music, a lone dash): displayed like any other
    ["..."], ["?!"], ["\u266a \u266a"], ["-", ("br",), "\u2014"],
    # spans that carry no styling of their own (a language tag, an id, nothing at all) around breaks and nested spans
    ["She said: ", ("span", {"xml:lang": "fr"}, ["bonjour", ("br",), "tout le monde"])],
    [("span", {"xml:id": "s1"}, ["top ", ("span", {"tts:fontWeight": "bold"}, ["bold"]), ("br",), "bottom"]), ("br",), "last"],
    [("span", {"tts:fontStyle": "italic"}, ["styled one", ("br",), "styled two"]), " ", ("span", {}, ["bare", ("br",), "span"])],
]


def documents(thorough):
    n = len(CONTENTS)
    for i, content in enumerate(CONTENTS):
        t = TIMES[i % len(TIMES)]
        t2 = TIMES[(i + 1) % len(TIMES)]
        later = {"begin": "00:10:00.000", "end": "00:10:01.000", "content": ["later"]}
        for pretty in (False, True):
            yield f"content {i}{' (indented)' if pretty else ''}", {"divs": [{"lang": "en-US", "ps": [
                {"begin": t[0], "end": t[1], "content": content}, later]}]}, pretty, \
                {"en-US": [(t[2], t[3], content, None, None, None), (600 * S, 601 * S, ["later"], None, None, None)]}
        yield f"times {i}", {"divs": [{"lang": "en-US", "ps": [{"begin": t2[0], "end": t2[1], "content": ["x"]}]}]}, False, \
            {"en-US": [(t2[2], t2[3], ["x"], None, None, None)]}
    yield "begin + dur", {"divs": [{"lang": "en-US", "ps": [{"begin": "2s", "dur": "1500ms", "content": ["x"]}]}]}, False, \
        {"en-US": [(2 * S, 3500000, ["x"], None, None, None)]}
    yield "regions on div, p and span", {"divs": [{"lang": "en-US", "region": "top", "ps": [
        {"begin": "1s", "end": "2s", "content": ["from the div"]},
        {"begin": "3s", "end": "4s", "region": "low", "content": ["from the p"]},
        {"begin": "5s", "end": "6s", "region": "pad", "content": ["p ", ("span", {"tts:fontStyle": "italic", "region": "low"}, ["span"])]},
        # a span WITHOUT a region inside a p with one, inside a div with another: the nearest ancestor (the p) decides
        {"begin": "7s", "end": "8s", "region": "pad", "content": ["p ", ("span", {"tts:fontStyle": "italic"}, ["unplaced span"]), " end"]},
    ]}]}, False, {"en-US": [(S, 2 * S, ["from the div"], "top", None, "top"), (3 * S, 4 * S, ["from the p"], "low", None, "top"),
                            (5 * S, 6 * S, ["p ", ("span", {"tts:fontStyle": "italic", "region": "low"}, ["span"])], "pad", None, "top"),
                            (7 * S, 8 * S, ["p ", ("span", {"tts:fontStyle": "italic"}, ["unplaced span"]), " end"], "pad", None, "top")]}
    yield "two languages, one without xml:lang", {"tt_lang": "de", "divs": [
        {"lang": "fr", "ps": [{"begin": "1s", "end": "2s", "content": ["bonjour"]}]},
        {"ps": [{"begin": "1s", "end": "2s", "content": ["hallo"]}, {"begin": "3s", "end": "4s", "content": ["welt"]}]}]}, True, \
        {"fr": [(S, 2 * S, ["bonjour"], None, None, None)],
         "de": [(S, 2 * S, ["hallo"], None, None, None), (3 * S, 4 * S, ["welt"], None, None, None)]}
    # a language spread over several divs (scenes, chapters): every div's cues are the language's cues, in document order
    yield "one language in two divs, another language between them", {"divs": [
        {"lang": "en-US", "ps": [{"begin": "1s", "end": "2s", "content": ["first scene"]}]},
        {"lang": "fr", "ps": [{"begin": "1s", "end": "2s", "content": ["scène"]}]},
        {"lang": "en-US", "ps": [{"begin": "3s", "end": "4s", "content": ["second scene"]}, {"begin": "5s", "end": "6s", "content": ["third"]}]}]}, \
        False, {"en-US": [(S, 2 * S, ["first scene"], None, None, None), (3 * S, 4 * S, ["second scene"], None, None, None),
                          (5 * S, 6 * S, ["third"], None, None, None)], "fr": [(S, 2 * S, ["scène"], None, None, None)]}
    yield "spans styled through chained style references", {"styles": CHAINED, "divs": [{"lang": "en-US", "ps": [
        {"begin": "1s", "end": "2s", "content": ["one ", ("span", {"style": "chain-a"}, ["two"]), " three ", ("span", {"style": "zz-chain"}, ["four"])]},
        {"begin": "3s", "end": "4s", "content": ["five ", ("span", {"style": "a-chain-of-two"}, ["six"])]}]}]}, False, \
        {"en-US": [(S, 2 * S, ["one ", ("span", {"style": "chain-a"}, ["two"]), " three ", ("span", {"style": "zz-chain"}, ["four"])], None, None, None),
                   (3 * S, 4 * S, ["five ", ("span", {"style": "a-chain-of-two"}, ["six"])], None, None, None)]}
    yield "one language in two divs placed in different regions", {"divs": [
        {"lang": "en-US", "region": "top", "ps": [{"begin": "1s", "end": "2s", "content": ["upper scene"]}]},
        {"lang": "en-US", "region": "low", "ps": [{"begin": "3s", "end": "4s", "content": ["lower scene"]}, {"begin": "5s", "end": "6s", "content": ["third"]}]}]}, \
        False, {"en-US": [(S, 2 * S, ["upper scene"], None, None, "top"), (3 * S, 4 * S, ["lower scene"], None, None, "low"),
                          (5 * S, 6 * S, ["third"], None, None, "low")]}
    yield "paragraphs of one region, one aligned through its style", {"styles": {"mid": {"tts:color": "white", "tts:textAlign": "center"}},
                                                                     "divs": [{"lang": "en-US", "ps": [
        {"begin": "1s", "end": "2s", "region": "top", "style": "plain", "content": ["first"]},
        {"begin": "3s", "end": "4s", "region": "top", "style": "mid", "content": ["second"]},
        {"begin": "5s", "end": "6s", "region": "top", "style": "plain", "content": ["third"]}]}]}, False, \
        {"en-US": [(S, 2 * S, ["first"], "top", "plain", None), (3 * S, 4 * S, ["second"], "top", "mid", None),
                   (5 * S, 6 * S, ["third"], "top", "plain", None)]}
    yield "caption style reference", {"divs": [{"lang": "en-US", "ps": [{"begin": "1s", "end": "2s", "style": "emph",
                                                                          "content": ["all italic"]}]}]}, False, \
        {"en-US": [(S, 2 * S, ["all italic"], None, "emph", None)]}


class World:
    def __init__(self, ctx):
        self.ctx = ctx
        self.F = Folder(ctx.index)
        self.F.object_classes = "*"
        self.F.external_models = {"bs4.BeautifulSoup": Soup}
        self.cls = ctx.index.get_class("pycaption/dfxp/base.py", "DFXPReader")
        self.fn = self.cls.find_method("read")
        self.n = 0

    def read(self, doc):
        me = Stub("reader", {}, cls=self.cls)
        init = self.cls.find_method("__init__")
        self.n += 1
        if init is not None:
            self.F.call_function(init, [], {}, self_value=me)
        self.last = self.F.call_function(self.fn, [doc], {}, self_value=me)
        return self.last


def layout_value(lay):
    """(origin, extent, padding, h-align, v-align) of a folded Layout, numbers in percent"""
    if not isinstance(lay, Stub):
        return None

    def size(s):
        if not isinstance(s, Stub):
            return None
        u = s.attrs.get("unit")
        return (round(float(s.attrs.get("value")), 3), getattr(u, "name", u))

    def two(o, a, b):
        return (size(o.attrs.get(a)), size(o.attrs.get(b))) if isinstance(o, Stub) else None
    al = lay.attrs.get("alignment")
    pad = lay.attrs.get("padding")
    return (two(lay.attrs.get("origin"), "x", "y"), two(lay.attrs.get("extent"), "horizontal", "vertical"),
            tuple(size(pad.attrs.get(k)) for k in ("before", "after", "start", "end")) if isinstance(pad, Stub) else None,
            getattr(al.attrs.get("horizontal"), "name", None) if isinstance(al, Stub) else None,
            getattr(al.attrs.get("vertical"), "name", None) if isinstance(al, Stub) else None)


def region_value(rid):
    if rid is None:
        return None
    a = REGIONS[rid]

    def pair(v):
        x, y = v.split()
        return ((float(x[:-1]), "PERCENT"), (float(y[:-1]), "PERCENT"))
    pad = None
    if "tts:padding" in a:
        b, e, af, st = [(float(t[:-1]), "PERCENT") for t in a["tts:padding"].split()]
        pad = (b, af, st, e)
    return (pair(a["tts:origin"]), pair(a["tts:extent"]), pad, H_ALIGN[a["tts:textAlign"]], V_ALIGN[a["tts:displayAlign"]])


def _resolved_italics(st, doc_styles, depth=0):
    """italics of a style dict, following its references into the document's styles (chained referential styling)"""
    if st.get("italics"):
        return True
    if depth > 4:
        return False
    refs = st.get("classes") or ([st["class"]] if st.get("class") else [])
    return any(_resolved_italics(doc_styles.get(r_) or {}, doc_styles, depth + 1) for r_ in refs if isinstance(r_, str))


def read_back(r):
    """{lang: [{start, end, lines, italic, chars[(ch, italic, layout value)], style}]}"""
    from .foldutil import captions_by_language, styles_of
    out = {}
    doc_styles = styles_of(r)
    for lang, caps in captions_by_language(r, what="DFXPReader.read").items():
        rows = []
        for c in caps:
            chars, on = [], False
            for nd in c.attrs["nodes"]:
                t = nd.attrs.get("type_")
                lay = layout_value(nd.attrs.get("layout_info"))
                if t == 3:
                    chars.append(("\n", False, lay))
                elif t == 1:
                    chars += [(ch, on, lay) for ch in nd.attrs.get("content")]
                elif t == 2:
                    st = nd.attrs.get("content") or {}
                    if _resolved_italics(st, doc_styles):
                        on = bool(nd.attrs.get("start"))
            text = "".join(ch for ch, _, _ in chars)
            rows.append({"start": c.attrs.get("start"), "end": c.attrs.get("end"),
                         "lines": [norm(l) for l in text.split("\n") if norm(l)],
                         "italic": norm("".join(ch for ch, i, _ in chars if i and ch != "\n")).replace(" ", ""),
                         "chars": chars, "style": c.attrs.get("style") or {},
                         "layout": layout_value(c.attrs.get("layout_info"))})
        out[lang] = rows
    return out, doc_styles


def explore(ctx, thorough):
    W = World(ctx)
    bad = {k: [] for k in ("cues", "times", "text", "italics", "layout", "langs", "roundtrip", "to_sami")}
    n = 0
    default_region = None
    for label, doc, pretty, want in documents(thorough):
        n += 1
        text = serialise(doc, pretty)
        case = {"document": label}
        try:
            got, styles = read_back(W.read(text))
        except FoldRaise as e:
            bad["cues"].append(dict(case, raises=f"{e.exc_name}: {e}"[:160], source=text[-300:]))
            continue
        except AnalysisError as e:
            raise AnalysisError(f"DFXPReader.read cannot be folded on the document '{label}': {e}")
        if list(got) != list(want):
            bad["langs"].append(dict(case, languages=list(got), required=list(want)))
            continue
        # the document's own round trip: read -> DFXPWriter.write -> read keeps instants, lines and italic characters
        try:
            wcls = ctx.index.get_class("pycaption/dfxp/base.py", "DFXPWriter")
            wr = Stub("writer", {}, cls=wcls)
            winit = wcls.find_method("__init__")
            if winit is not None:
                W.F.call_function(winit, [], {}, self_value=wr)
            doc2 = W.F.call_function(wcls.find_method("write"), [W.last], {}, self_value=wr)
            got2, _ = read_back(W.read(doc2))
            # (the writer may put a blank after a closing span: lines are compared without white space)
            sq = lambda ls: [l.replace(" ", "") for l in ls]          # noqa: E731
            k1 = {l: [(c["start"], c["end"], sq(c["lines"]), c["italic"]) for c in cs_] for l, cs_ in got.items()}
            k2 = {l: [(c["start"], c["end"], sq(c["lines"]), c["italic"]) for c in cs_] for l, cs_ in got2.items()}
            if k1 != k2:
                lang = next((l for l in k1 if k1[l] != k2.get(l)), None)
                bad["roundtrip"].append(dict(case, why="read -> write -> read changes the captions", language=lang,
                                             read=str(k1.get(lang))[:260], after_the_trip=str(k2.get(lang))[:260]))
        except FoldRaise as e:
            bad["roundtrip"].append(dict(case, why="read -> write -> read", raises=f"{e.exc_name}: {e}"[:140]))
        except AnalysisError as e:
            raise AnalysisError(f"DFXP read -> write -> read cannot be folded on the document '{label}': {e}")
        # documents with italic characters, once more: DFXP -> SAMIWriter.write -> SAMIReader.read keeps the italic characters
        # (styles referenced by id, chained references and inline attributes all travel through the SAMI stylesheet / spans)
        if not pretty and any(c["italic"] for cs_ in got.values() for c in cs_) and not any(
                c["style"].get("italics") or c["style"].get("class") for cs_ in got.values() for c in cs_):
            try:
                to_sami(ctx, W, label, got, bad)
            except FoldRaise as e:
                bad["to_sami"].append(dict(case, raises=f"{e.exc_name}: {e}"[:160]))
            except AnalysisError as e:
                raise AnalysisError(f"DFXP -> SAMI -> read cannot be folded on the document '{label}': {e}")
        for lang, caps in want.items():
            g = got[lang]
            if len(g) != len(caps):
                bad["cues"].append(dict(case, language=lang, captions=len(g), required=len(caps)))
                continue
            for k, (c, (s, e, content, p_region, p_style, div_region)) in enumerate(zip(g, caps)):
                if (c["start"], c["end"]) != (s, e):
                    bad["times"].append(dict(case, cue=k + 1, read=(c["start"], c["end"]), required=(s, e)))
                italic_all = p_style in STYLES and STYLES[p_style].get("tts:fontStyle") == "italic"
                sh = shown(content, False, p_region or div_region)
                want_text = "".join(ch for ch, _, _ in sh)
                want_lines = [norm(l) for l in want_text.split("\n") if norm(l)]
                if c["lines"] != want_lines:
                    bad["text"].append(dict(case, cue=k + 1, read=c["lines"], required=want_lines))
                    continue
                want_it = norm("".join(ch for ch, i, _ in sh if i and ch != "\n")).replace(" ", "")
                got_it = c["italic"]
                if italic_all:
                    # whole-caption italics travel as the caption's style
                    if not (c["style"].get("italics") or (styles or {}).get(c["style"].get("class"), {}).get("italics")):
                        bad["italics"].append(dict(case, cue=k + 1, caption_style=c["style"], required="italics via the referenced style"))
                elif got_it != want_it:
                    bad["italics"].append(dict(case, cue=k + 1, italic_characters=got_it, required=want_it))
                gl = [(ch, lay) for ch, _, lay in c["chars"] if ch.strip()]
                wl = [(ch, region_value(r)) for ch, _, r in sh if ch.strip()]
                # a style the paragraph refers to may set the horizontal alignment: it overrides the region's for that paragraph
                p_align = dict(STYLES, **doc.get("styles", {})).get(p_style, {}).get("tts:textAlign")
                if p_align is not None:
                    wl = [(ch, wv_ if wv_ is None else wv_[:3] + (H_ALIGN[p_align],) + wv_[4:]) for ch, wv_ in wl]
                if len(gl) == len(wl):
                    for (ch, lay), (_, wv) in zip(gl, wl):
                        if wv is None:
                            default_region = default_region or lay
                            if lay is not None and lay[0] is not None:
                                bad["layout"].append(dict(case, cue=k + 1, character=ch, layout=lay, required="no positioning / the default"))
                                break
                        elif lay != wv:
                            bad["layout"].append(dict(case, cue=k + 1, character=ch, layout=lay, required=wv))
                            break
    n += roundtrip(ctx, W, bad)
    return W, bad, n


def to_sami(ctx, W, label, got, bad):
    """the caption set just read from DFXP (W.last) written by SAMIWriter and read by SAMIReader: same italic characters per cue"""
    from ..core.samimodels import SAMI_MODELS
    from . import sami_reader_fold as SF
    if "html.parser.HTMLParser" not in W.F.external_models:
        W.F.external_models = dict(W.F.external_models, **SAMI_MODELS)
    wcls = ctx.index.get_class("pycaption/sami.py", "SAMIWriter")
    rcls = ctx.index.get_class("pycaption/sami.py", "SAMIReader")
    objs = []
    for cls_ in (wcls, rcls):
        me = Stub(cls_.name, {}, cls=cls_)
        init = cls_.find_method("__init__")
        if init is not None:
            W.F.call_function(init, [], {}, self_value=me)
        objs.append(me)
    doc = W.F.call_function(wcls.find_method("write"), [W.last], {}, self_value=objs[0])
    back_set = W.F.call_function(rcls.find_method("read"), [doc], {}, self_value=objs[1])
    back = SF.read_back(back_set)
    # ... and what a consumer of that caption set makes of it: the WebVTT writer's <i> tags
    vcls = ctx.index.get_class("pycaption/webvtt.py", "WebVTTWriter")
    vw = Stub("WebVTTWriter", {}, cls=vcls)
    vinit = vcls.find_method("__init__")
    if vinit is not None:
        W.F.call_function(vinit, [], {}, self_value=vw)
    for lang, cs_ in got.items():
        after = [SF.marked(c["chars"], 1) for c in back.get(lang, [])]
        before = [c["italic"] for c in cs_]
        if after != before:
            bad["to_sami"].append({"document": label, "language": lang, "italic_characters_read_from_DFXP": before,
                                   "after_SAMIWriter_and_SAMIReader": after, "sami": doc[-400:]})
            continue
        vtt = W.F.call_function(vcls.find_method("write"), [back_set], {"lang": lang}, self_value=vw)
        cues, problem = SF.vtt_chars(vtt)
        shown_ = None if cues is None else [SF.marked(ch, 1) for ch in cues]
        if shown_ != before:
            bad["to_sami"].append({"document": label, "language": lang, "italic_characters_read_from_DFXP": before,
                                   "in_the_WebVTT_written_from_the_SAMI_read": shown_ if cues is not None else problem,
                                   "webvtt": vtt[-300:] if isinstance(vtt, str) else None})


def roundtrip(ctx, W, bad):
    """DFXPWriter.write -> DFXPReader.read on the caption sets of markup_writer_fold: instants (to the millisecond), lines,
    italic characters and the effective layout of every character survive; a second trip changes nothing further"""
    from . import markup_writer_fold as MW
    M = MW.World(ctx)
    n = 0
    for label, spec in MW.caption_sets(False):
        if any(not re.fullmatch(r"[A-Za-z0-9-]+", l) for l in spec["langs"]) or "metacharacters" in label:
            continue
        n += 1
        case = {"caption_set": label}
        try:
            cs = M.caption_set(spec)
            _, doc, _ = M.write("pycaption/dfxp/base.py", "DFXPWriter", cs)
            back = M_read(M, W, doc)
            got, styles = read_back(back)
            _, doc2, _ = M.write("pycaption/dfxp/base.py", "DFXPWriter", back)
            got2, _ = read_back(M_read(M, W, doc2))
        except FoldRaise as e:
            bad["roundtrip"].append(dict(case, raises=f"{e.exc_name}: {e}"[:160]))
            continue
        except AnalysisError as e:
            raise AnalysisError(f"DFXP round trip cannot be folded on the set '{label}': {e}")
        if list(got) != list(spec["langs"]):
            bad["roundtrip"].append(dict(case, languages=list(got), required=list(spec["langs"])))
            continue
        problem = None
        for lang, caps in spec["langs"].items():
            if len(got[lang]) != len(caps):
                problem = {"language": lang, "captions": len(got[lang]), "required": len(caps)}
                break
            lay_lang = spec.get("lang_layout", {}).get(lang)
            for k, (c, (s, e, items, clay, style)) in enumerate(zip(got[lang], caps)):
                if (c["start"], c["end"]) != (int(s) // 1000 * 1000, int(e) // 1000 * 1000):
                    problem = {"cue": k + 1, "times": (c["start"], c["end"]), "required": (int(s) // 1000 * 1000, int(e) // 1000 * 1000)}
                    break
                if not MW.same_lines(c["lines"], MW.pieces_of(items)):
                    problem = {"cue": k + 1, "lines": c["lines"], "required": [MW.norm(t) for t, _ in MW.lines_of(items) if MW.norm(t)]}
                    break
                rows = MW.lines_of(items)
                want_it = "".join(MW.norm(i).replace(" ", "") for _, i in rows)
                whole = bool(style and spec.get("styles", {}).get(style.get("class"), {}).get("italics"))
                if whole:
                    if not (c["style"].get("italics") or (styles or {}).get(c["style"].get("class"), {}).get("italics")):
                        problem = {"cue": k + 1, "caption_style_after_the_trip": c["style"], "required": "an italic style"}
                        break
                elif c["italic"] != want_it:
                    problem = {"cue": k + 1, "italic_characters": c["italic"], "required": want_it}
                    break
                cur = span = None
                want_chars = []
                for it in items:
                    if isinstance(it, tuple) and it[0] == "L":
                        cur = it[1]
                    elif isinstance(it, tuple) and it[0] in ("i", "s"):
                        span = cur if it[1] else None
                    elif isinstance(it, str):
                        want_chars += [(ch, span or clay or lay_lang) for ch in it if ch.strip()]
                got_chars = [(ch, lay) for ch, _, lay in c["chars"] if ch.strip()]
                if len(got_chars) == len(want_chars):
                    for (ch, lay), (_, eff) in zip(got_chars, want_chars):
                        if eff is None:
                            if lay is not None and lay[0] is not None:
                                problem = {"cue": k + 1, "character": ch, "layout_after_the_trip": lay, "required": "the default region"}
                                break
                            continue
                        x, y, w, h, al = eff
                        ok = lay is not None and lay[0] == ((float(x), "PERCENT"), (float(y), "PERCENT")) \
                            and (w is None or lay[1] == ((float(w), "PERCENT"), (float(h), "PERCENT"))) \
                            and (al is None or all(a_ is None or a_ == b_ for a_, b_ in zip(al, (lay[3], lay[4]))))
                        # (a component the set leaves open comes back as the TTML default: only the given ones are compared)
                        if not ok:
                            problem = {"cue": k + 1, "character": ch, "layout_after_the_trip": lay, "required": eff}
                            break
                if problem:
                    break
            if problem:
                break
        if problem:
            bad["roundtrip"].append(dict(case, **problem))
        else:
            def key(g):
                return {l: [(c["start"], c["end"], c["lines"], c["italic"], [(ch, lay) for ch, _, lay in c["chars"] if ch.strip()])
                            for c in cs_] for l, cs_ in g.items()}
            if key(got2) != key(got):
                k1, k2 = key(got), key(got2)
                lang = next(l for l in k1 if k1[l] != k2.get(l))
                bad["roundtrip"].append(dict(case, why="a second trip changes the caption set again (drift)", language=lang,
                                             after_one_trip=str(k1[lang])[:300], after_two=str(k2.get(lang))[:300]))
    return n


def M_read(M, W, doc):
    """read with the reader class, inside the writer world's evaluator (one session: shared classes)"""
    me = Stub("reader", {}, cls=W.cls)
    init = W.cls.find_method("__init__")
    if init is not None:
        M.F.call_function(init, [], {}, self_value=me)
    return M.F.call_function(W.fn, [doc], {}, self_value=me)


TEXTS_BY_KEY = {
    "cues": "one caption per non-empty p, in document order, per language",
    "times": "start and end are the instants the time expressions denote (clock times, offsets in h/m/s/ms/f, begin+dur)",
    "text": "each caption's lines are what a conformant consumer displays (references decoded once, br = line break, spans "
            "contribute no characters)",
    "italics": "the italic characters are those inside an italic span / under an italic style",
    "layout": "every text node carries the layout of the region referenced by the nearest of span / p / div",
    "langs": "languages in order of first appearance; a div without xml:lang takes the document language",
    "to_sami": "documents with italic spans (inline, by style reference, by chained references): DFXPReader.read -> SAMIWriter.write -> "
               "SAMIReader.read keeps the italic characters of every cue",
    "roundtrip": "DFXPWriter.write -> DFXPReader.read: instants (ms), lines, italic characters and every character's effective "
                 "layout survive, and a second trip changes nothing further (white-space normalised)",
}


def run(ctx, report, rules):
    thorough = ctx.tier == "thorough"
    W, bad, n = ctx.memo(("dfxp_reader_fold", thorough), lambda: explore(ctx, thorough))
    report.covered(W.fn)
    report.count("dfxp_documents_folded", n)
    for key, (rule, clause) in rules.items():
        report.check(not bad[key], rule, W.fn, f"DFXP reader on {n} generated documents: {TEXTS_BY_KEY[key]}",
                     {"documents": n, "mismatches": bad[key][:2]}, clause)
