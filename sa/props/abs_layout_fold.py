"""C13 (DFXP and SAMI writers): absolute lengths end to end.

`DFXPWriter.write` and `SAMIWriter.write` folded (BeautifulSoup replaced by the model of sa/core/soupmodel.py; everything
else is pycaption's own source interpreted by the checker's evaluator) on one-caption sets whose layout is given in px, em,
pt or cells - at caption level and on a styled span for DFXP, at language level (the margins of the language's class) for
SAMI - with the video size present, absent, and half present.

Expected (from the property: px*100/dimension, 1em = 16px, 1pt = 4/3 px, a 32x15 cell grid, two decimals):
  video size given      the region's tts:origin / tts:extent / tts:padding (DFXP) and the class's margin-* (SAMI) are the
                        percentages the lengths denote; no px / em / pt / c is written
  a needed size absent  RelativizationError, nothing written
Language- and set-level layouts of the DFXP writer are not part of this fold: they are the recorded findings F14.
"""
import ast
import re
from fractions import Fraction as Fr

from ..core.tree import AnalysisError
from ..core.constfold import FoldRaise
from . import markup_writer_fold as MW

S = 1000000
W_, H_ = 640, 360
UNIT = {"px": "PIXEL", "em": "EM", "pt": "PT", "c": "CELL", "%": "PERCENT"}
# unit -> (origin x, y), (extent w, h), padding (before, after, start, end): all inside the safe area once converted
SPECS = {
    "px": ((64, 36), (320, 36), (18, 9, 32, 16)),
    "em": ((2, 1), (10, 2), (0.5, 0.25, 1, 0.5)),
    "pt": ((12, 27), (240, 27), (13.5, 6.75, 24, 12)),
    "c": ((8, 3), (10, 2), (0.75, 0.375, 1.6, 0.8)),
    "px, three decimals": ((64.125, 36.333), (320.555, 36.006), (18, 9, 32, 16)),
}


def pct(v, unit, axis):
    v = Fr(str(v))
    if unit == "c":
        return v * 100 / (32 if axis == "x" else 15)
    px = v if unit == "px" else v * 16 if unit == "em" else v * 4 / 3
    return px * 100 / (W_ if axis == "x" else H_)


def close(written, want):
    m = re.fullmatch(r"(-?\d+(?:\.\d+)?)%", written or "")
    return m is not None and abs(Fr(m.group(1)) - want) <= Fr(51, 10000) and len(m.group(1).partition(".")[2]) <= 2


def explore(ctx):
    M = MW.World(ctx)
    geom = "pycaption.geometry"
    bad = {"dfxp": [], "sami": [], "raise": []}
    n = 0
    fns = {}

    def size(v, u):
        return M.ev(f"Size(v, UnitEnum.{UNIT[u]})", geom, v=v)

    def layout(spec, u, with_padding=True):
        (ox, oy), (ew, eh), (pb, pa, ps, pe) = spec
        return M.ev("Layout(origin=Point(a, b), extent=Stretch(c, d), padding=p, alignment=Alignment(HorizontalAlignmentEnum.LEFT, "
                    "VerticalAlignmentEnum.TOP))", geom, a=size(ox, u), b=size(oy, u), c=size(ew, u), d=size(eh, u),
                    p=M.ev("Padding(before=a, after=b, start=c, end=d)", geom, a=size(pb, u), b=size(pa, u), c=size(ps, u),
                           d=size(pe, u)) if with_padding else None)

    def caption_set(level, lay):
        text = M.ev("CaptionNode.create_text('hello')")
        if level == "span":
            nodes = [M.ev("CaptionNode.create_style(True, {'italics': True}, layout_info=l)", l=lay), M.ev("CaptionNode.create_text('hi', layout_info=l)", l=lay),
                     M.ev("CaptionNode.create_style(False, {'italics': True}, layout_info=l)", l=lay)]
        else:
            nodes = [text]
        cap = M.ev("Caption(1000000, 2000000, n, layout_info=l)", n=nodes, l=lay if level == "caption" else None)
        cl = M.ev("CaptionList([c], layout_info=l)", c=cap, l=lay if level == "language" else None)
        return M.ev("CaptionSet({'en-US': l})", l=cl)

    videos = [((W_, H_), None), ((None, None), "RelativizationError"), ((W_, None), "RelativizationError"), ((None, H_), "RelativizationError")]
    for label, spec in SPECS.items():
        u = label.split(",")[0]
        (ox, oy), (ew, eh), (pb, pa, ps, pe) = spec
        for (vw, vh), must_raise in videos:
            opts = {k: v for k, v in (("video_width", vw), ("video_height", vh)) if v is not None}
            # ---------------- DFXP: caption level and span level
            for level in ("caption", "span"):
                n += 1
                case = {"unit": label, "level": level, "video": (vw, vh)}
                try:
                    fn, doc, _ = M.write("pycaption/dfxp/base.py", "DFXPWriter", caption_set(level, layout(spec, u)), init_kw=dict(opts))
                    fns["dfxp"] = fn
                except FoldRaise as e:
                    if e.exc_name != must_raise:
                        bad["raise"].append(dict(case, writer="DFXPWriter", raises=e.exc_name, required=must_raise or "a document"))
                    continue
                except AnalysisError as e:
                    raise AnalysisError(f"DFXPWriter.write cannot be folded on a {label} layout at {level} level: {e}")
                if must_raise:
                    bad["raise"].append(dict(case, writer="DFXPWriter", required=must_raise,
                                             written=re.findall(r"<region[^>]*>", doc)[:3]))
                    continue
                parsed, err = MW.read_dfxp(doc)
                if parsed is None:
                    bad["dfxp"].append(dict(case, problem=err))
                    continue
                regs = [r for r in parsed["regions"].values() if "tts:origin" in r]
                if len(regs) != 1:
                    bad["dfxp"].append(dict(case, why="expected exactly one positioned region", regions=list(parsed["regions"].values())[:3]))
                    continue
                r = regs[0]
                want = {"tts:origin": [pct(ox, u, "x"), pct(oy, u, "y")], "tts:extent": [pct(ew, u, "x"), pct(eh, u, "y")],
                        "tts:padding": [pct(pb, u, "y"), pct(pe, u, "x"), pct(pa, u, "y"), pct(ps, u, "x")]}     # before end after start
                wrong = {}
                for k, vals in want.items():
                    toks = (r.get(k) or "").split()
                    if len(toks) != len(vals) or not all(close(t, v) for t, v in zip(toks, vals)):
                        wrong[k] = (r.get(k), " ".join(f"{float(v):.2f}%" for v in vals))
                if wrong:
                    bad["dfxp"].append(dict(case, region=r, wrong=wrong))
            # ---------------- SAMI: the margins of the language's class
            n += 1
            case = {"unit": label, "level": "language", "video": (vw, vh)}
            try:
                fn, sdoc, _ = M.write("pycaption/sami.py", "SAMIWriter", caption_set("language", layout(spec, u)), init_kw=dict(opts))
                fns["sami"] = fn
            except FoldRaise as e:
                if e.exc_name != must_raise:
                    bad["raise"].append(dict(case, writer="SAMIWriter", raises=e.exc_name, required=must_raise or "a document"))
                continue
            except AnalysisError as e:
                raise AnalysisError(f"SAMIWriter.write cannot be folded on a {label} layout at language level: {e}")
            if must_raise:
                bad["raise"].append(dict(case, writer="SAMIWriter", required=must_raise, written=re.findall(r"margin-[a-z]+: [^;]+;", sdoc)[:4]))
                continue
            got = dict(re.findall(r"(margin-[a-z]+): ([^;]+);", sdoc))
            want = {"margin-top": pct(pb, u, "y"), "margin-bottom": pct(pa, u, "y"), "margin-left": pct(ps, u, "x"),
                    "margin-right": pct(pe, u, "x")}
            wrong = {k: (got.get(k), f"{float(v):.2f}%") for k, v in want.items() if not close(got.get(k), v)}
            if wrong:
                bad["sami"].append(dict(case, margins=got, wrong=wrong))
    return M, fns, bad, n


def run(ctx, report, clause_value="1", clause_raise="2"):
    M, fns, bad, n = ctx.memo("abs_layout_fold", lambda: explore(ctx))
    for f in fns.values():
        report.covered(f)
    report.count("absolute_layout_documents_folded", n)
    dw = fns.get("dfxp") or ctx.index.get_function("pycaption/dfxp/base.py", "DFXPWriter.write")
    sw = fns.get("sami") or ctx.index.get_function("pycaption/sami.py", "SAMIWriter.write")
    report.check(not bad["dfxp"], "R-GRID", dw, f"DFXP writer on layouts in px / em / pt / cells at caption and span level ({n} folded writes): "
                 "origin, extent and padding of the region are the percentages of the video size the lengths denote, to two decimals",
                 {"mismatches": bad["dfxp"][:3]}, clause_value)
    report.check(not bad["sami"], "R-GRID", sw, "SAMI writer on paddings in px / em / pt / cells at language level: the margins of the "
                 "language's class are the percentages the lengths denote", {"mismatches": bad["sami"][:3]}, clause_value)
    report.check(not bad["raise"], "R-GRID", dw, "both writers raise RelativizationError exactly when the video width or height an absolute "
                 "length needs was not supplied, and write nothing then", {"mismatches": bad["raise"][:3]}, clause_raise)
