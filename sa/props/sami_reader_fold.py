"""C01 / C04 / C10 / C11 / C14 (SAMI reader): `SAMIReader.read` folded on SAMI documents generated from an abstract
model, and the SAMI round trip `SAMIWriter.write -> SAMIReader.read`.

The reader is built on three third-party libraries.  Inside the evaluator they are replaced by the models of
sa/core/samimodels.py and sa/core/soupmodel.py (documented there): `SAMIParser`'s base class is the stdlib tokenizer
itself with every callback dispatched to SAMIParser's own (folded) methods; the stylesheet goes through a parser of the
CSS subset the generated documents use; the markup SAMIParser re-serialises goes through a tree builder that follows
libxml2's documented behaviour on exactly that subset.  At development time the folded reader was compared with the
real one on the 30 SAMI fixtures of the repository's test-suite and on the generated documents below: identical caption
sets.  Whatever the models do not cover is an ANALYSIS-ERROR.  Everything else - SAMIReader, SAMIParser, the caption
and geometry classes - is pycaption's own source, folded by the checker's evaluator (nothing imported or run).

The abstract model: languages (class name, language code); per language cues (start ms, end ms or None, items); items
are text pieces taken from a pool of (source spelling, displayed text) pairs, line breaks, i/b/u elements and spans with
an inline style.  The serialiser writes SYNC blocks in time order, one P per language per block, a `&nbsp;` paragraph at
a cue's end unless the language's next cue starts there; variants: upper / lower case tags, closed or unclosed P and
SYNC (both are everyday SAMI), quoted or bare attribute values.

Obligations:
  C14  languages in order of first appearance, each cue under its own language (class -> language through the stylesheet,
       or the lang attribute)
  C01  one caption per non-blank paragraph, in document order; start = its sync; end = the language's next sync (blank or
       not); four seconds for a language's last cue when nothing follows
  C04  each caption's lines are what a SAMI consumer displays: references decoded exactly once, br = line break, tags
       contribute no characters
  C11  the characters inside i / b / u (or a span whose style says so) are exactly the italic / bold / underlined ones;
       style nodes balanced
  C10  a reader object used twice gives the same result the second time; results of two reads share no caption objects
"""
import ast
import re

from ..core.tree import AnalysisError
from ..core.constfold import Folder, Stub, FoldRaise
from ..core.soupmodel import Soup
from ..core.samimodels import SAMI_MODELS

SAMI = "pycaption/sami.py"

# (source spelling, displayed text)
PIECES = [
    ("hello", "hello"), ("a &amp; b", "a & b"), ("&lt;tag&gt;", "<tag>"), ("&amp;lt;", "&lt;"), ("&#60;i&#62;", "<i>"),
    ("caf&eacute;", "café"), ("&#x266A; la", "♪ la"), ("it&apos;s &quot;q&quot;", "it's \"q\""), ("&#38;amp;", "&amp;"),
    ("x &gt; y", "x > y"), ("100%", "100%"), ("é ü 漢", "é ü 漢"),
    # decimal and hexadecimal references with the same digits are different characters
    ("1&#38;2 &#x38; &#41;&#x41; &#60;&#x60;", "1&2 8 )A <`"),
]


def norm(s):
    return re.sub(r"\s+", " ", s.replace("\xa0", " ")).strip()


# ----------------------------------------------------------------------------- serialiser (written from the SAMI spec)
def ser_items(items, v):
    out = []
    for it in items:
        if it is None:
            out.append("<BR>" if v["upper"] else "<br/>")
        elif isinstance(it, int):
            out.append(PIECES[it][0])
        elif isinstance(it, str):
            out.append(it)
        elif it[0] in ("i", "b", "u"):
            t = it[0].upper() if v["upper"] else it[0]
            out.append(f"<{t}>{ser_items(it[1], v)}</{t}>")
        elif it[0] == "span":
            t = "SPAN" if v["upper"] else "span"
            out.append(f'<{t} style="{it[1]}">{ser_items(it[2], v)}</{t}>')
        elif it[0] == "font":
            out.append(f'<font color="red">{ser_items(it[1], v)}</font>')
        elif it[0] == "el":          # ("el", tag, attribute text, items, flags it switches on)
            t = it[1].upper() if v["upper"] else it[1]
            out.append(f"<{t} {it[2]}>{ser_items(it[3], v)}</{t}>")
        else:
            raise AssertionError(it)
    return "".join(out)


def serialise(model):
    v = dict({"upper": True, "closed": False, "quoted": True, "lang_attr": False, "indent": False}, **model.get("variant", {}))
    up = (lambda s: s.upper()) if v["upper"] else (lambda s: s)
    q = (lambda s: f'"{s}"') if v["quoted"] else (lambda s: s)
    css = ["P { margin-left: 1pt; margin-right: 1pt; font-size: 10pt; text-align: center; font-family: Arial; color: white; }"]
    for cls, code in model["langs"]:
        css.append(f".{cls} {{Name: {cls}; lang: {code}; SAMI_Type: CC;}}")
    for sel, body in model.get("extra_css", []):
        css.append(f"{sel} {{{body}}}")
    head = (f"<{up('sami')}><{up('head')}><{up('title')}>t</{up('title')}>\n<{up('style')} TYPE=\"text/css\">\n<!--\n"
            + "\n".join(css) + f"\n-->\n</{up('style')}></{up('head')}><{up('body')}>\n")
    events = {}
    for cls, code in model["langs"]:
        cues = model["cues"][code]
        for k, (s, e, items) in enumerate(cues):
            events.setdefault(s, []).append((cls, code, ser_items(items, v)))
            nxt = next((c[0] for c in cues[k + 1:] if c[0] != s), None)
            if e is not None and e != nxt:
                events.setdefault(e, []).append((cls, code, "&nbsp;"))
    body = []
    for t in sorted(events):
        blk = f"<{up('sync')} {up('start')}={q(str(t))}>"
        for cls, code, markup in events[t]:
            attr = f"{up('lang')}={q(code)}" if v["lang_attr"] else f"{up('class')}={q(cls)}"
            pre = "\n      " if v["indent"] else ""
            blk += f"<{up('p')} {attr}>{pre}{markup}"
            if v["closed"]:
                blk += f"</{up('p')}>"
            else:
                blk += "\n"
        if v["closed"]:
            blk += f"</{up('sync')}>\n"
        body.append(blk)
    return head + "".join(body) + f"</{up('body')}></{up('sami')}>\n"


def shown(items, flags=(False, False, False)):
    """[(character, italic, bold, underline)] with '\\n' for a line break"""
    out = []
    for it in items:
        if it is None:
            out.append(("\n",) + flags)
        elif isinstance(it, int):
            out += [(ch,) + flags for ch in PIECES[it][1]]
        elif isinstance(it, str):
            out += [(ch,) + flags for ch in it]
        elif it[0] in ("i", "b", "u"):
            f = list(flags)
            f["ibu".index(it[0])] = True
            out += shown(it[1], tuple(f))
        elif it[0] == "span":
            f = list(flags)
            decl = {k.strip(): v_.strip() for k, _, v_ in (d.partition(":") for d in it[1].split(";")) if k.strip()}
            if decl.get("font-style") == "italic":
                f[0] = True
            if decl.get("font-weight") == "bold":
                f[1] = True
            if decl.get("text-decoration") == "underline":
                f[2] = True
            out += shown(it[2], tuple(f))
        elif it[0] == "font":
            out += shown(it[1], flags)
        elif it[0] == "el":
            out += shown(it[3], tuple(a or b for a, b in zip(flags, it[4])))
    return out


def expected(model):
    """{language: [(start us, end us, [(ch, i, b, u)])]} in order of first appearance"""
    first = {}
    for cls, code in model["langs"]:
        cues = model["cues"][code]
        if cues:
            first[code] = (cues[0][0], [c for _, c in model["langs"]].index(code))
    out = {}
    for code in sorted(first, key=lambda c: first[c]):
        cues, rows = model["cues"][code], []
        for k, (s, e, items) in enumerate(cues):
            # (two paragraphs of one language in one SYNC share their start: both last until the language's next sync)
            nxt = next((c[0] for c in cues[k + 1:] if c[0] != s), None)
            end = e if e is not None else (nxt if nxt is not None else s + 4000)
            rows.append((s * 1000, end * 1000, shown(items)))
        out[code] = rows
    return out


# ----------------------------------------------------------------------------- the documents
def documents(thorough):
    one = [("ENCC", "en-US")]
    two = [("ENCC", "en-US"), ("FRCC", "fr")]
    variants = [{"upper": True, "closed": False}, {"upper": False, "closed": True}, {"upper": True, "closed": True, "quoted": False},
                {"upper": False, "closed": False, "indent": True}]
    # text: every piece of the pool alone, between words, and next to a line break
    for k in range(len(PIECES)):
        v = variants[k % len(variants)]
        yield f"piece {k} ({PIECES[k][0]})", {"langs": one, "variant": v, "cues": {"en-US": [
            (1000, 2500, [k]), (3000, 4000, ["word ", k, " word"]), (5000, None, [k, None, "second ", (k + 1) % len(PIECES)])]}}
    # times: ends by blank paragraph, by the next cue, none at all (four seconds); large instants; a cue at 0
    yield "ends", {"langs": one, "cues": {"en-US": [(0, 900, ["zero"]), (1000, 2000, ["a"]), (2000, None, ["b"]), (2500, 2600, ["c"]),
                                                      (3600000, 3600040, ["hour"]), (86399999, None, ["last"])]}}
    yield "two paragraphs of one language in one SYNC, in the middle and at the end", {"langs": one, "cues": {"en-US": [
        (1000, None, ["one"]), (3000, None, ["three"]), (3000, None, ["three-b"]), (6000, None, ["six"]), (6000, None, ["six-b"])]}}
    yield "two paragraphs of one language in one SYNC, cleared by a blank SYNC", {"langs": one, "variant": variants[1], "cues": {"en-US": [
        (1000, 2500, ["top line"]), (1000, 2500, ["bottom line"]), (4000, None, ["after"]), (6000, 7000, ["x"]), (6000, 7000, ["y"]),
        (6000, 7000, ["z"])]}}
    yield "a last cue with its end", {"langs": one, "variant": variants[1], "cues": {"en-US": [(1000, None, ["a"]), (7000, 9000, ["b"])]}}
    # markup: i / b / u, nesting of different kinds, spans, an unknown element, elements across a break
    marks = [
        [("i", ["slanted"]), " plain"], ["plain ", ("b", ["heavy"]), " end"], ["x ", ("u", ["under"])],
        [("i", ["one", None, "two"]), " three"], ["This is ", ("i", ["really ", ("b", ["very"]), " important"]), ", okay?"],
        [("span", "font-style:italic;", ["sp"]), " after"], ["a ", ("span", "font-style: italic;font-weight: bold;", ["both"])],
        [("span", "text-decoration:underline;color:red", ["ul"]), " z"], [("font", ["coloured"]), " text"],
        [("i", [0]), ("i", [1]), "c"], [("i", [("u", [("b", ["deep"])])])], ["a", ("i", [None]), "b"],
        [("span", "font-style:italic;font-weight:bold;text-decoration:underline;", ["all three"])],
        # empty style elements (what SAMIWriter itself writes for an empty span): the text after them is plain
        [("i", []), "plain after an empty i"], ["a ", ("b", []), "b ", ("u", []), "c"], [("span", "font-style:italic;", []), "after an empty span"],
    ]
    for k, m in enumerate(marks):
        yield f"markup {k}", {"langs": one, "variant": variants[k % len(variants)],
                              "cues": {"en-US": [(1000, 2000, m), (3000, None, ["after"])]}}
    # a style class / id of the stylesheet referenced in another letter case than it is declared in
    yield "class and id references in mixed case", {
        "langs": one, "variant": variants[1], "extra_css": [(".EmPh", "font-style: italic;"), ("#BiG", "font-weight: bold;")],
        "cues": {"en-US": [(1000, 2000, ["a ", ("el", "span", 'class="EMPH"', ["slanted"], (True, False, False)), " b"]),
                           (3000, None, [("el", "span", 'id="big"', ["heavy"], (False, True, False)), " tail"])]}}
    # a span that carries a class reference AND an inline style: both count
    yield "class and inline style on one span", {
        "langs": one, "variant": variants[1], "extra_css": [(".it", "font-style: italic;"), (".bd", "font-weight: bold;")],
        "cues": {"en-US": [(1000, 2000, ["plain ", ("el", "span", 'class="it" style="color:#ff0000;"', ["slanted"], (True, False, False)), " and ",
                                         ("el", "span", 'class="bd" style="text-decoration:underline;"', ["lined"], (False, True, True)), " end"]),
                           (3000, None, [("el", "span", 'class="it"', ["only a class"], (True, False, False)), " tail"])]}}
    # languages: interleaved, coinciding, disjoint; the second language first in time; three languages; lang attribute
    yield "two languages, same syncs", {"langs": two, "cues": {"en-US": [(1000, 2000, ["hello"]), (3000, 4000, ["bye"])],
                                                               "fr": [(1000, 2000, ["bonjour"]), (3000, 4000, ["au revoir"])]}}
    yield "two languages, interleaved", {"langs": two, "variant": variants[1], "cues": {
        "en-US": [(1000, 3000, ["a"]), (4000, 5000, ["b"])], "fr": [(2000, 3000, ["c"]), (3000, 4500, ["d"]), (6000, None, ["e"])]}}
    yield "second language first in time", {"langs": two, "cues": {"en-US": [(5000, 6000, ["late"])], "fr": [(1000, 2000, ["tôt"])]}}
    yield "three languages", {"langs": two + [("DECC", "de")], "variant": variants[2], "cues": {
        "en-US": [(1000, 2000, ["one"])], "fr": [(1000, None, ["un"])], "de": [(1500, 2500, ["eins"]), (2500, None, ["zwei"])]}}
    yield "one language code a prefix of the other", {"langs": [("ENUS", "en-US"), ("ENXX", "en")], "variant": variants[1], "cues": {
        "en-US": [(1000, 2000, ["american"]), (5000, None, ["later"])], "en": [(1000, 2000, ["plain"]), (3000, 4000, ["middle"])]}}
    yield "the shorter code first", {"langs": [("ENXX", "en"), ("ENUS", "en-US")], "cues": {
        "en": [(1000, 2000, ["plain"])], "en-US": [(1500, 2500, ["american"]), (3000, None, ["later"])]}}
    yield "language by lang attribute", {"langs": [("X", "fr"), ("Y", "de")], "variant": {"lang_attr": True, "upper": False, "closed": True},
                                         "cues": {"fr": [(1000, 2000, ["salut"])], "de": [(1000, 2000, ["hallo"]), (3000, None, ["welt"])]}}
    if thorough:
        for k in range(len(PIECES)):
            yield f"piece {k} inside i", {"langs": two, "variant": variants[(k + 1) % len(variants)], "cues": {
                "en-US": [(1000, 2000, [("i", [k]), " ", k])], "fr": [(1000, 1500, [k, None, ("b", [k])])]}}


# ----------------------------------------------------------------------------- folding
class World:
    def __init__(self, ctx):
        self.ctx = ctx
        self.F = Folder(ctx.index)
        self.F.object_classes = "*"
        self.F.external_models = dict({"bs4.BeautifulSoup": Soup}, **SAMI_MODELS)
        self.cls = ctx.index.get_class(SAMI, "SAMIReader")
        self.fn = self.cls.find_method("read")
        if self.fn is None:
            raise AnalysisError("SAMIReader.read not found")
        self.n = 0

    def reader(self):
        me = Stub("reader", {}, cls=self.cls)
        init = self.cls.find_method("__init__")
        if init is not None:
            self.F.call_function(init, [], {}, self_value=me)
        return me

    def read(self, doc, me=None):
        self.n += 1
        return self.F.call_function(self.fn, [doc], {}, self_value=me or self.reader())


def _resolved(st, doc_styles, keys, depth=0):
    """the italics / bold / underline a style dict gets through its class reference, following references of the referenced
    styles (chained referential styling carried through SAMI as `class: other;`)"""
    out = {}
    ref = st.get("class")
    if isinstance(ref, str) and depth < 5:
        target = doc_styles.get(ref) or {}
        out.update(_resolved(target, doc_styles, keys, depth + 1))
        out.update({k: v for k, v in target.items() if k in keys})
    return out


def read_back(r):
    """{lang: [{start, end, chars [(ch, i, b, u)], balanced, nodes}]}"""
    from .foldutil import captions_by_language, styles_of
    out = {}
    doc_styles = styles_of(r)
    for lang, caps in captions_by_language(r, what="SAMIReader.read").items():
        rows = []
        for c in caps:
            chars, on, balanced = [], {"italics": 0, "bold": 0, "underline": 0}, True
            for nd in c.attrs["nodes"]:
                t = nd.attrs.get("type_")
                if t == 3:
                    chars.append(("\n", False, False, False))
                elif t == 1:
                    chars += [(ch, on["italics"] > 0, on["bold"] > 0, on["underline"] > 0) for ch in nd.attrs.get("content")]
                elif t == 2:
                    st = dict(nd.attrs.get("content") or {})
                    st.update(_resolved(st, doc_styles, on))
                    for k in on:
                        if st.get(k):
                            on[k] += 1 if nd.attrs.get("start") else -1
                            if on[k] < 0:
                                balanced = False
            if any(on.values()):
                balanced = False
            rows.append({"start": c.attrs.get("start"), "end": c.attrs.get("end"), "chars": chars, "balanced": balanced,
                         "nodes": c.attrs["nodes"], "obj": c})
        out[lang] = rows
    return out


def lines_of(chars):
    return [norm(l) for l in "".join(ch for ch, *_ in chars).split("\n") if norm(l)]


def marked(chars, k):
    return norm("".join(c[0] for c in chars if c[k] and c[0] != "\n")).replace(" ", "")


def explore(ctx, thorough):
    W = World(ctx)
    bad = {k: [] for k in ("langs", "cues", "times", "text", "styles", "balanced", "reuse", "roundtrip", "convert")}
    n = 0
    for label, model in documents(thorough):
        n += 1
        text = serialise(model)
        want = expected(model)
        case = {"document": label}
        me = W.reader()
        try:
            first = W.read(text, me)
            got = read_back(first)
        except FoldRaise as e:
            bad["cues"].append(dict(case, raises=f"{e.exc_name}: {e}"[:160], source=text[-260:]))
            continue
        except AnalysisError as e:
            raise AnalysisError(f"SAMIReader.read cannot be folded on the document '{label}': {e}")
        if list(got) != list(want):
            bad["langs"].append(dict(case, languages=list(got), required=list(want)))
            continue
        for lang, rows in want.items():
            g = got[lang]
            if len(g) != len(rows):
                bad["cues"].append(dict(case, language=lang, captions=len(g), required=len(rows),
                                        read=[lines_of(c["chars"]) for c in g][:4]))
                continue
            for k, (c, (s, e, sh)) in enumerate(zip(g, rows)):
                if (c["start"], c["end"]) != (s, e):
                    bad["times"].append(dict(case, language=lang, cue=k + 1, read=(c["start"], c["end"]), required=(s, e)))
                if lines_of(c["chars"]) != lines_of(sh):
                    bad["text"].append(dict(case, language=lang, cue=k + 1, read=lines_of(c["chars"]), required=lines_of(sh)))
                    continue
                if not c["balanced"]:
                    bad["balanced"].append(dict(case, language=lang, cue=k + 1, why="style nodes do not pair up"))
                for idx, name in ((1, "italic"), (2, "bold"), (3, "underline")):
                    if marked(c["chars"], idx) != marked(sh, idx):
                        bad["styles"].append(dict(case, language=lang, cue=k + 1, style=name, characters=marked(c["chars"], idx),
                                                  required=marked(sh, idx)))
                        break
        # the same reader object once more, then a fresh one: the same caption set, no shared caption objects
        if n % 3 == 1 or thorough:
            try:
                again = read_back(W.read(text, me))
            except FoldRaise as e:
                bad["reuse"].append(dict(case, why="the second read() on one reader object", raises=f"{e.exc_name}: {e}"[:140]))
                continue
            except AnalysisError as e:
                raise AnalysisError(f"SAMIReader.read (second call on one object) cannot be folded on '{label}': {e}")
            key = lambda res: {l: [(c["start"], c["end"], c["chars"]) for c in cs_] for l, cs_ in res.items()}    # noqa: E731
            if key(again) != key(got):
                lang = next((l for l in key(got) if key(got)[l] != key(again).get(l)), None)
                bad["reuse"].append(dict(case, why="the second read() on one reader object differs from the first", language=lang,
                                         first=str(key(got).get(lang))[:200], second=str(key(again).get(lang))[:200]))
            from .foldutil import mutable_ids

            def _ids(res):
                out = set()
                for cs_ in res.values():
                    for c in cs_:
                        out.add(id(c["obj"]))
                        for holder in [c["obj"]] + list(c["nodes"]):
                            out.add(id(holder))
                            for k_ in ("style", "layout_info"):
                                mutable_ids(getattr(holder, "attrs", {}).get(k_), out)
                return out
            ids1, ids2 = _ids(got), _ids(again)
            if ids1 & ids2:
                bad["reuse"].append(dict(case, why="two reads return caption sets that share caption / node objects"))
    n += roundtrip(ctx, bad)
    n += conversions(ctx, bad)
    return W, bad, n


# ----------------------------------------------------------------------------- SAMIWriter.write -> SAMIReader.read
S = 1000000


def trip_sets():
    import itertools
    keys = ("italics", "bold", "underline")
    cues, t = [], 1
    for k in range(1, 4):
        for sub in itertools.combinations(keys, k):
            st = {x: True for x in sub}
            cues.append((t * S, t * S + 500000, ["plain ", ("s", True, st), "marked " + "+".join(sub), ("s", False, st), " tail"]))
            t += 1
    yield "every subset of italics / bold / underline", {"en-US": cues}
    it = {"italics": True}
    yield "span positions", {"en-US": [
        (S, 2 * S, [("s", True, it), "start", ("s", False, it), " rest"]), (2 * S, 3 * S, ["head ", ("s", True, it), "end", ("s", False, it)]),
        (4 * S, 5 * S, [("s", True, it), "one", None, "two", ("s", False, it), " three"]),
        (6 * S, 7 * S, [("s", True, it), "a", ("s", False, it), ("s", True, {"bold": True}), "b", ("s", False, {"bold": True}), "c"]),
        (8 * S, 9 * S, ["x & ", ("s", True, it), "<y>", ("s", False, it), " &amp; \"q\""]),
        (10 * S, 11 * S, [("s", True, {"bold": True}), ("s", False, {"bold": True}), "after an empty span"]), (12 * S, 13 * S, ["last"])]}
    yield "two languages", {"en-US": [(S, 3 * S, ["a"]), (4 * S, 5 * S, ["b", None, "b2"])],
                            "fr": [(2 * S, 3 * S, ["c"]), (3 * S, 4 * S + 500000, [("s", True, it), "d", ("s", False, it)]), (6 * S, 7 * S, ["e"])]}
    # one language code a prefix of another, in both orders: each keeps its own cues and its own label
    yield "language codes en-US then en", {"en-US": [(3 * S, 4 * S, ["american"])], "en": [(S, 2 * S, ["plain"]), (5 * S, 6 * S, ["two"])]}
    yield "language codes en then en-US", {"en": [(S, 2 * S, ["plain"]), (5 * S, 6 * S, ["two"])], "en-US": [(3 * S, 4 * S, ["american"])]}
    yield "sub-millisecond instants", {"en-US": [(1000999, 2000001, ["x"]), (2000999, 3 * S, ["y"]), (3600 * S, 3601 * S, ["z"])]}


def trip_expected(caps):
    rows = []
    for k, (s, e, items) in enumerate(caps):
        nxt = caps[k + 1][0] // 1000 if k + 1 < len(caps) else None
        s_ms, e_ms = s // 1000, e // 1000
        end = (s_ms + 4000) if nxt is None else e_ms
        flags, chars = {"italics": False, "bold": False, "underline": False}, []
        for it in items:
            if it is None:
                chars.append(("\n", False, False, False))
            elif isinstance(it, tuple):
                for k_ in it[2]:
                    flags[k_] = bool(it[1])
            else:
                chars += [(ch, flags["italics"], flags["bold"], flags["underline"]) for ch in it]
        rows.append((s_ms * 1000, end * 1000, chars))
    return rows


def roundtrip(ctx, bad):
    from . import markup_writer_fold as MW
    M = MW.World(ctx)
    M.F.external_models = dict(M.F.external_models, **SAMI_MODELS)
    rcls = ctx.index.get_class(SAMI, "SAMIReader")

    def read(doc):
        me = Stub("reader", {}, cls=rcls)
        init = rcls.find_method("__init__")
        if init is not None:
            M.F.call_function(init, [], {}, self_value=me)
        return M.F.call_function(rcls.find_method("read"), [doc], {}, self_value=me)
    n = 0
    for label, langs in trip_sets():
        n += 1
        case = {"caption_set": label}
        try:
            d = {}
            for lang, caps in langs.items():
                cl = []
                for s, e, items in caps:
                    nodes = []
                    for it in items:
                        if it is None:
                            nodes.append(M.ev("CaptionNode.create_break()"))
                        elif isinstance(it, tuple):
                            nodes.append(M.ev("CaptionNode.create_style(s, c)", s=it[1], c=dict(it[2])))
                        else:
                            nodes.append(M.ev("CaptionNode.create_text(t)", t=it))
                    cl.append(M.ev("Caption(s, e, n)", s=s, e=e, n=nodes))
                d[lang] = M.ev("CaptionList(c)", c=cl)
            cs = M.ev("CaptionSet(d)", d=d)
            _, doc, _ = M.write(SAMI, "SAMIWriter", cs)
            back = read(doc)
            got = read_back(back)
            _, doc2, _ = M.write(SAMI, "SAMIWriter", back)
            got2 = read_back(read(doc2))
        except FoldRaise as e:
            bad["roundtrip"].append(dict(case, raises=f"{e.exc_name}: {e}"[:160]))
            continue
        except AnalysisError as e:
            raise AnalysisError(f"SAMI round trip cannot be folded on the set '{label}': {e}")
        # (a SAMI document lists its paragraphs in time order: languages come back in order of first appearance there)
        order = sorted(langs, key=lambda l: (langs[l][0][0] // 1000, list(langs).index(l)))
        if list(got) != order:
            bad["roundtrip"].append(dict(case, languages=list(got), required=order))
            continue
        problem = None
        for lang, caps in langs.items():
            want = trip_expected(caps)
            if len(got[lang]) != len(want):
                problem = {"language": lang, "captions": len(got[lang]), "required": len(want)}
                break
            for k, (c, (s, e, chars)) in enumerate(zip(got[lang], want)):
                if (c["start"], c["end"]) != (s, e):
                    problem = {"language": lang, "cue": k + 1, "times": (c["start"], c["end"]), "required": (s, e)}
                elif [l.replace(" ", "") for l in lines_of(c["chars"])] != [l.replace(" ", "") for l in lines_of(chars)]:
                    # (the writer may put a blank between two nodes of a line: compared without white space)
                    problem = {"language": lang, "cue": k + 1, "lines": lines_of(c["chars"]), "required": lines_of(chars)}
                elif not c["balanced"]:
                    problem = {"language": lang, "cue": k + 1, "why": "style nodes do not pair up after the trip"}
                else:
                    for idx, name in ((1, "italic"), (2, "bold"), (3, "underline")):
                        if marked(c["chars"], idx) != marked(chars, idx):
                            problem = {"language": lang, "cue": k + 1, "style": name, "characters_after_the_trip": marked(c["chars"], idx),
                                       "required": marked(chars, idx)}
                            break
                if problem:
                    break
            if problem:
                break
        if problem:
            bad["roundtrip"].append(dict(case, **problem))
            continue
        key = lambda res: {l: [(c["start"], c["end"], [x.replace(" ", "") for x in lines_of(c["chars"])], [marked(c["chars"], i) for i in (1, 2, 3)])    # noqa: E731
                               for c in cs_] for l, cs_ in res.items()}
        if key(got2) != key(got):
            k1, k2 = key(got), key(got2)
            lang = next(l for l in k1 if k1[l] != k2.get(l))
            bad["roundtrip"].append(dict(case, why="a second trip changes the caption set again (drift)", language=lang,
                                         after_one_trip=str(k1[lang])[:300], after_two=str(k2.get(lang))[:300]))
    return n


def vtt_chars(doc):
    """[[(ch, i, b, u)] per cue] of a WebVTT document, or (None, problem) when i / b / u tags are not properly nested"""
    import html
    cues = []
    for block in re.split(r"\n{2,}", doc.strip("\n")):
        ls = block.split("\n")
        k = next((i for i, l in enumerate(ls) if "-->" in l), None)
        if k is None:
            continue
        chars, stack = [], []
        for m in re.finditer(r"<(/?)([ibu])>|(&[a-zA-Z#0-9]+;|.|\n)", "\n".join(ls[k + 1:])):
            if m.group(2):
                if not m.group(1):
                    stack.append(m.group(2))
                elif stack and stack[-1] == m.group(2):
                    stack.pop()
                else:
                    return None, f"stray or badly nested </{m.group(2)}> in {block[:80]!r}"
            else:
                chars.append((html.unescape(m.group(3)).replace("\xa0", " "), "i" in stack, "b" in stack, "u" in stack))
        if stack:
            return None, f"unclosed tags {stack} in {block[:80]!r}"
        cues.append(chars)
    return cues, None


def nests(items, inside=False):
    """a style element inside another one (outside the domain of C11 for the span writers)"""
    for it in items:
        if isinstance(it, tuple):
            inner = it[1] if it[0] in ("i", "b", "u", "font") else it[2] if it[0] == "span" else it[3]
            styled = it[0] != "font"
            if (styled and inside) or nests(inner, inside or styled):
                return True
    return False


def conversions(ctx, bad):
    """SAMIReader.read -> WebVTTWriter.write and -> SAMIWriter.write -> SAMIReader.read on the marked-up documents: the italic /
    bold / underlined characters of the source are those of the result (tags properly nested)"""
    from . import markup_writer_fold as MW
    M = MW.World(ctx)
    M.F.external_models = dict(M.F.external_models, **SAMI_MODELS)
    rcls = ctx.index.get_class(SAMI, "SAMIReader")

    def read(doc):
        me = Stub("reader", {}, cls=rcls)
        init = rcls.find_method("__init__")
        if init is not None:
            M.F.call_function(init, [], {}, self_value=me)
        return M.F.call_function(rcls.find_method("read"), [doc], {}, self_value=me)
    n = 0
    for label, model in documents(False):
        if not (label.startswith("markup") or label.startswith("class")):
            continue
        want = expected(model)["en-US"]
        case = {"document": label}
        cs = None
        for target in ("WebVTT", "SAMI"):
            if target == "SAMI" and any(nests(items) for cues_ in model["cues"].values() for _, _, items in cues_):
                continue       # (the span writers keep one open span, not a stack: nested spans are outside the property's domain)
            n += 1
            try:
                # (one read, two writes of the same caption set: a writer that edits the set shows in the second)
                cs = cs if cs is not None else read(serialise(model))
                if target == "WebVTT":
                    _, out, _ = M.write("pycaption/webvtt.py", "WebVTTWriter", cs, init_kw={"video_width": 640, "video_height": 360})
                    cues, problem = vtt_chars(out)
                else:
                    _, out, _ = M.write(SAMI, "SAMIWriter", cs, init_kw={"video_width": 640, "video_height": 360})
                    back_ = read_back(read(out))
                    if "en-US" not in back_:
                        bad["convert"].append(dict(case, target=target, why="the language is not there after SAMIWriter.write -> SAMIReader.read",
                                                   languages=list(back_)))
                        continue
                    cues, problem = [c["chars"] for c in back_["en-US"]], None
            except FoldRaise as e:
                bad["convert"].append(dict(case, target=target, raises=f"{e.exc_name}: {e}"[:160]))
                continue
            except AnalysisError as e:
                raise AnalysisError(f"SAMI -> {target} cannot be folded on the document '{label}': {e}")
            if cues is None:
                bad["convert"].append(dict(case, target=target, problem=problem))
                continue
            if len(cues) != len(want):
                bad["convert"].append(dict(case, target=target, cues=len(cues), required=len(want)))
                continue
            for k, (chars, (_, _, sh)) in enumerate(zip(cues, want)):
                for idx, name in ((1, "italic"), (2, "bold"), (3, "underline")):
                    if marked(chars, idx) != marked(sh, idx):
                        bad["convert"].append(dict(case, target=target, cue=k + 1, style=name, characters=marked(chars, idx),
                                                   required=marked(sh, idx), written=out[-300:]))
                        break
    return n


TEXTS = {
    "convert": "SAMIReader.read -> WebVTTWriter.write, and -> SAMIWriter.write -> SAMIReader.read, on the marked-up documents: the "
               "italic / bold / underlined characters are those of the source, tags properly nested",
    "roundtrip": "SAMIWriter.write -> SAMIReader.read: languages, cues, starts and non-final ends (ms; four seconds for a last cue), "
                 "lines and the italic / bold / underlined characters survive, and a second trip changes nothing further",
    "langs": "languages are listed in order of first appearance and every cue is under its own language",
    "cues": "one caption per non-blank paragraph, in document order",
    "times": "start = the paragraph's sync, end = the language's next sync (blank or not), four seconds for a language's last cue",
    "text": "each caption's lines are what a SAMI consumer displays (references decoded once, br = line break, tags give no characters)",
    "styles": "the characters inside i / b / u or a span styled so are exactly the italic / bold / underlined ones",
    "balanced": "style nodes of every caption pair up",
    "reuse": "a reader object used twice gives the same caption set again, sharing no objects with the first",
}


def run(ctx, report, rules):
    """rules: {key: (rule id, clause)}"""
    thorough = ctx.tier == "thorough"
    W, bad, n = ctx.memo(("sami_reader_fold", thorough), lambda: explore(ctx, thorough))
    report.covered(W.fn)
    for name in ("_translate_lang", "_translate_tag", "_translate_span", "_translate_attrs"):
        m = W.cls.find_method(name)
        if m is not None:
            report.covered(m)
    pc = ctx.index.get_class(SAMI, "SAMIParser")
    for name in ("feed", "handle_starttag", "handle_endtag", "handle_entityref", "handle_charref", "_css_parse", "_find_lang"):
        m = pc.find_method(name)
        if m is not None:
            report.covered(m)
    report.count("sami_documents_folded", n)
    for key, (rule, clause) in rules.items():
        report.check(not bad[key], rule, W.fn, f"SAMI reader on {n} generated documents ({W.n} folded reads): {TEXTS[key]}",
                     {"documents": n, "mismatches": bad[key][:2]}, clause)
    report.assume("html.parser.HTMLParser (stdlib) tokenises as documented; cssutils and lxml behave on the generated subset as "
                  "modelled in sa/core/samimodels.py and sa/core/soupmodel.py (compared with the real libraries at development time)")
