"""The SCC pop-on buffer (InstructionNodeCreator + position tracker + italics pipeline) decided by
folding its source on every short caption.

A pop-on caption is a sequence of rows; a row is: a preamble address code (plain or italic, at a
column), an optional tab offset, text, optionally a mid-row code (italics on / plain) and more text.
The buffer object is really constructed inside the checker's evaluator (its classes' __init__ and
methods are folded from source; nothing is imported), fed the commands of EVERY caption of up to two
rows over the alphabet below (and of three rows over a reduced alphabet in the thorough tier), and
the node list it hands out is read back and compared with the CEA-608 meaning of the input:

  O-CHUNKS    rows on consecutive screen rows are the lines of one chunk (separated by breaks);
              a row that is not directly below the previous one starts a new, repositioned chunk
  O-POSITION  a chunk is positioned at the (row, column + tab offset) of its first row
  O-TEXT      every character sent appears once, in order, on the line of its row
  O-ITALICS   a character is inside an italics span exactly when the last attribute-setting code before
              it (italic / plain preamble, italic / plain mid-row code) was an italic one

White space is ignored in the comparison (a mid-row code occupies a cell; how that blank is rendered
is not part of the obligation).
"""
import itertools

from ..core.tree import AnalysisError
from ..core.constfold import Folder, Stub, FoldRaise

SPC = "pycaption/scc/specialized_collections.py"
SM = "pycaption/scc/state_machines.py"
C = "pycaption.scc.constants"


class Buffer:
    def __init__(self, ctx):
        idx = ctx.index
        self.F = Folder(idx)
        self.F.object_classes = ("_InstructionNode", "InstructionNodeCreator", "DefaultProvidingPositionTracker",
                                 "_PositioningTracker")
        self.inc = idx.get_class(SPC, "InstructionNodeCreator")
        self.trk = idx.get_class(SM, "DefaultProvidingPositionTracker")
        self.ncls = idx.get_class(SPC, "_InstructionNode")
        self.fmt = idx.get_function(SPC, "_format_italics")
        self.kind = {self.F.eval_in(self.ncls.module, self.ncls.class_attrs[n]): n
                     for n in ("TEXT", "BREAK", "ITALICS_ON", "ITALICS_OFF", "CHANGE_POSITION")}
        pacs = self.F.value(C, "PAC_BYTES_TO_POSITIONING_MAP")
        ital = self.F.value(C, "ITALICS_COMMANDS")
        under = self.F.value(C, "UNDERLINE_COMMANDS")
        mid = self.F.value(C, "MID_ROW_CODES")
        style = self.F.value(C, "STYLE_SETTING_COMMANDS")
        tabs = self.F.value(C, "PAC_TAB_OFFSET_COMMANDS")
        self.pac = {}
        for a, row in pacs.items():
            for b, v in row.items():
                w = a + b
                if w in under:
                    continue
                self.pac.setdefault((v, w in ital), w)
        self.mid_on = sorted(m for m in mid if m in ital and m not in under)
        self.mid_off = sorted(m for m in mid if m in style and m not in ital and m not in under)
        self.tab2 = [w for w, n in tabs.items() if n == 2]
        if not self.mid_on or not self.mid_off or not self.tab2:
            raise AnalysisError("SCC buffer fold: mid-row / tab-offset codes not found in the tables")
        self.covered = [self.inc.find_method(n) for n in ("add_chars", "interpret_command", "_update_positioning", "has_break_before")] + \
            [self.trk.find_method("update_positioning"), self.fmt]

    def new(self):
        tr = Stub("tracker", {}, cls=self.trk)
        self.F.call_function(self.trk.find_method("__init__"), [], {}, self_value=tr)
        b = Stub("buffer", {}, cls=self.inc)
        self.F.call_function(self.inc.find_method("__init__"), [], {"position_tracker": tr}, self_value=b)
        return b

    def commands(self, rows):
        out = []
        for i, (r, col, it, to, midk) in enumerate(rows):
            w = self.pac.get(((r, col), it))
            if w is None:
                raise AnalysisError(f"SCC buffer fold: no preamble address code for row {r} column {col} italic={it}")
            out.append(("cmd", w))
            if to:
                out.append(("cmd", self.tab2[0]))
            out.append(("chars", (chr(97 + 2 * i), chr(98 + 2 * i))))
            if midk:
                out.append(("cmd", self.mid_on[0] if midk == "on" else self.mid_off[0]))
                out.append(("chars", (chr(65 + 2 * i), chr(66 + 2 * i))))
        return out

    def run(self, rows):
        b = self.new()
        for kind, arg in self.commands(rows):
            if kind == "cmd":
                self.F.call_function(self.inc.find_method("interpret_command"), [arg], {}, self_value=b)
            else:
                self.F.call_function(self.inc.find_method("add_chars"), list(arg), {}, self_value=b)
        out = self.F.call_function(self.fmt, [b.attrs["_collection"]])
        return [(self.kind.get(n.attrs["_type"]), n.attrs["text"], n.attrs["position"]) for n in out]


def reference(rows):
    chunks, prev = [], None
    for i, (r, col, it, to, midk) in enumerate(rows):
        on = it
        segs = [(chr(97 + 2 * i) + chr(98 + 2 * i), on)]
        if midk:
            on = midk == "on"
            segs.append((chr(65 + 2 * i) + chr(66 + 2 * i), on))
        if prev is not None and r == prev + 1:
            chunks[-1][1].append(segs)
        else:
            chunks.append(((r, col + (2 if to else 0)), [segs]))
        prev = r
    return chunks


def reading(out):
    chunks, on, cur = [], False, None
    for kind, text, pos in out:
        if kind == "ITALICS_ON":
            on = True
        elif kind == "ITALICS_OFF":
            on = False
        elif kind == "CHANGE_POSITION":
            cur = None
        elif kind == "BREAK":
            if cur is not None:
                cur[1].append([])
        elif kind == "TEXT" and text:
            if cur is None:
                cur = (pos, [[]])
                chunks.append(cur)
            t = "".join(ch for ch in text if not ch.isspace())
            if t:
                cur[1][-1].append((t, on))
    return chunks


def norm(chunks):
    res = []
    for pos, lines in chunks:
        out_lines = []
        for segs in lines:
            m = []
            for t, f in segs:
                if m and m[-1][1] == f:
                    m[-1] = (m[-1][0] + t, f)
                else:
                    m.append((t, f))
            out_lines.append(m)
        res.append((tuple(pos) if pos else pos, out_lines))
    return res


def classify(got, want):
    if [len(c[1]) for c in got] != [len(c[1]) for c in want]:
        return "O-CHUNKS"
    if [c[0] for c in got] != [c[0] for c in want]:
        return "O-POSITION"
    gt = [["".join(t for t, _ in line) for line in c[1]] for c in got]
    wt = [["".join(t for t, _ in line) for line in c[1]] for c in want]
    if gt != wt:
        return "O-TEXT"
    return "O-ITALICS"


def run(ctx, report, clause, three_rows=False):
    buf = Buffer(ctx)
    for f in buf.covered:
        if f is not None:
            report.covered(f)
    full = [o for o in itertools.product((0, 4), (False, True), (False, True), (None, "on", "off")) if not (o[0] == 4 and o[1])]
    small = [o for o in itertools.product((0,), (False, True), (False,), (None, "on", "off"))]
    families = []
    for o1 in full:
        families.append([(2,) + o1])
        for rel in (1, 3):
            for o2 in full:
                families.append([(2,) + o1, (2 + rel,) + o2])
    if three_rows:
        for o1 in small:
            for r1 in (1, 3):
                for o2 in small:
                    for r2 in (1, 3):
                        for o3 in small + [(0, False, True, None), (0, True, True, None)]:
                            families.append([(2,) + o1, (2 + r1,) + o2, (2 + r1 + r2,) + o3])
    bad = {}
    n = 0
    for rows in families:
        n += 1
        try:
            out = buf.run(rows)
        except FoldRaise as e:
            bad.setdefault("O-CHUNKS", []).append({"rows": _show(rows), "problem": f"the buffer raises: {e}"})
            continue
        except AnalysisError as e:
            raise AnalysisError(f"SCC buffer cannot be folded on {_show(rows)}: {e}")
        got, want = norm(reading(out)), norm(reference(rows))
        if got != want:
            bad.setdefault(classify(got, want), []).append({"rows": _show(rows), "read_back": got, "required": want})
    labels = {"O-CHUNKS": "consecutive rows are the lines of one chunk; a row elsewhere starts a new, repositioned chunk",
              "O-POSITION": "a chunk is positioned at the (row, column + tab offset) of its first row",
              "O-TEXT": "every character sent appears once, in order, on the line of its row",
              "O-ITALICS": "a character is italic exactly when the last attribute-setting code before it was an italic one"}
    for ob, label in labels.items():
        b = bad.get(ob, [])
        report.check(not b, "R-BUFFER-FOLD", buf.inc.find_method("interpret_command"), f"{ob}: {label}",
                     {"captions_folded": n, "rows_per_caption": "1-3" if three_rows else "1-2",
                      "offending": sorted(b, key=lambda x: len(str(x)))[:2]}, clause)
    report.count("buffer_captions_folded", n)


def _show(rows):
    return [f"row {r} col {c}{' italic' if it else ''}{' +TO2' if to else ''}{' mid-row ' + m if m else ''}" for r, c, it, to, m in rows]


def emptiness(ctx, report, clause):
    """InstructionNodeCreator.is_empty() folded on buffers built by command sequences: a buffer is empty
    exactly when no character was written into it (null padding and commands write nothing)."""
    buf = Buffer(ctx)
    ie = buf.inc.find_method("is_empty")
    report.covered(ie)
    alphabet = {"address row 2": ("cmd", buf.pac[((2, 0), False)]), "address row 3": ("cmd", buf.pac[((3, 0), False)]),
                "null padding": ("chars", ("", "")), "text": ("chars", ("a", "b")), "blank": ("chars", (" ",)),
                "italic mid-row code": ("cmd", buf.mid_on[0]), "plain mid-row code": ("cmd", buf.mid_off[0])}
    cases = []
    for k in range(0, 4):
        for seq in itertools.product(sorted(alphabet), repeat=k):
            wrote = any(alphabet[x][0] == "chars" and any(alphabet[x][1]) for x in seq)
            cases.append((" . ".join(seq) or "fresh buffer", [alphabet[x] for x in seq], not wrote))
    bad = []
    for label, cmds, want in cases:
        b = buf.new()
        try:
            for kind, arg in cmds:
                if kind == "cmd":
                    buf.F.call_function(buf.inc.find_method("interpret_command"), [arg], {}, self_value=b)
                else:
                    buf.F.call_function(buf.inc.find_method("add_chars"), list(arg), {}, self_value=b)
            got = buf.F.call_function(ie, [], {}, self_value=b)
        except FoldRaise as e:
            bad.append({"buffer": label, "problem": f"raises {e}"})
            continue
        except AnalysisError as e:
            raise AnalysisError(f"is_empty cannot be folded on '{label}': {e}")
        if bool(got) != want:
            bad.append({"buffer": label, "is_empty": got, "required": want})
    bad = sorted(bad, key=lambda x: len(x["buffer"]))[:4]
    report.check(not bad, "R-QUANTIFIER", ie, "a buffer is empty exactly when no character was written into it",
                 {"buffers_folded": len(cases), "scope": "every command sequence up to length 3 over 7 commands", "mismatches": bad,
                  "why": "a text-less buffer that is not 'empty' is stored as a caption (and breaks the reader later); a "
                         "buffer with text that counts as empty is dropped"}, clause)
