"""The SCC italics pipeline (_format_italics and its passes) decided by folding its source on
every short node sequence.

The passes are pure list transformers over _InstructionNode values.  They are folded (constant
evaluation of the source; nodes are really constructed by running _InstructionNode.__init__ in the
folder) on EVERY sequence up to a stated length over {italics on, italics off, text, break,
reposition}, and the result is compared with the meaning of the input: a text is italic exactly
when the last italics command before it was 'on'.

  O-BALANCED   in the output, italics-on and italics-off alternate, starting with on and ending closed
  O-SEGMENTS   no repositioning happens inside an open span (each separately positioned chunk is balanced)
  O-TEXT       the texts come out in order, none lost or invented
  O-EXTENT     a text is inside a span exactly when it was sent while italics were on
"""
import itertools

from ..core.tree import AnalysisError
from ..core.constfold import Folder, Stub, FoldRaise

SPC = "pycaption/scc/specialized_collections.py"
ALPHABET = ("ON", "OFF", "T", "B", "R")


class Pipeline:
    def __init__(self, ctx):
        self.folder = Folder(ctx.index)          # own folder: object construction switched on
        self.folder.object_classes = ("_InstructionNode",)
        self.ncls = ctx.index.get_class(SPC, "_InstructionNode")
        self.fn = ctx.index.get_function(SPC, "_format_italics")
        self.k = {n: self.folder.eval_in(self.ncls.module, self.ncls.class_attrs[n])
                  for n in ("TEXT", "BREAK", "ITALICS_ON", "ITALICS_OFF", "CHANGE_POSITION")}
        self.kind_of = {v: k for k, v in self.k.items()}

    def node(self, letter, i):
        t = {"ON": "ITALICS_ON", "OFF": "ITALICS_OFF", "T": "TEXT", "B": "BREAK", "R": "CHANGE_POSITION"}[letter]
        return Stub("_InstructionNode", {"text": f"t{i}" if letter == "T" else None, "position": (1, 0), "_type": self.k[t]},
                    cls=self.ncls)

    def run(self, seq):
        nodes = [self.node(l, i) for i, l in enumerate(seq)]
        try:
            out = self.folder.call_function(self.fn, [nodes])
        except FoldRaise as e:
            return ("raises", str(e))
        except AnalysisError as e:
            raise AnalysisError(f"_format_italics cannot be folded on {list(seq)}: {e}")
        res = []
        for n in out:
            if not isinstance(n, Stub):
                raise AnalysisError(f"_format_italics returned a non-node: {n!r}")
            res.append((self.kind_of.get(n.attrs.get("_type")), n.attrs.get("text")))
        return res


def judge(seq, out):
    # meaning of the input
    on, want = False, []
    for i, l in enumerate(seq):
        if l == "ON":
            on = True
        elif l == "OFF":
            on = False
        elif l == "T":
            want.append((f"t{i}", on))
    # reading of the output
    state, got, why = False, [], None
    for kind, text in out:
        if kind == "ITALICS_ON":
            if state:
                why = why or ("O-BALANCED", "italics opened twice")
            state = True
        elif kind == "ITALICS_OFF":
            if not state:
                why = why or ("O-BALANCED", "italics closed without being open")
            state = False
        elif kind == "CHANGE_POSITION":
            if state:
                why = why or ("O-SEGMENTS", "repositioning inside an open italics span")
        elif kind == "TEXT":
            if text:
                got.append((text, state))
    if state:
        why = why or ("O-BALANCED", "italics still open at the end")
    if [t for t, _ in got] != [t for t, _ in want]:
        why = why or ("O-TEXT", f"texts {[t for t, _ in got]} instead of {[t for t, _ in want]}")
    elif got != want:
        why = why or ("O-EXTENT", f"italic flags {[b for _, b in got]} instead of {[b for _, b in want]}")
    return why


def run(ctx, report, clause, max_len):
    p = Pipeline(ctx)
    report.covered(p.fn)
    bad = {}
    n = 0
    for k in range(1, max_len + 1):
        for seq in itertools.product(ALPHABET, repeat=k):
            if "T" not in seq:
                continue        # a buffer is only iterated when it holds text (InstructionNodeCreator.is_empty)
            n += 1
            out = p.run(seq)
            if isinstance(out, tuple) and out and out[0] == "raises":
                bad.setdefault("O-TOTAL", []).append({"nodes": list(seq), "problem": out[1]})
                continue
            why = judge(seq, out)
            if why:
                bad.setdefault(why[0], []).append({"nodes": list(seq), "output": [k_ if k_ != "TEXT" else t for k_, t in out],
                                                  "problem": why[1]})
    for ob, label in (("O-TOTAL", "the pipeline accepts every buffer that holds text"),
                      ("O-BALANCED", "italics on / off alternate and every span is closed"),
                      ("O-SEGMENTS", "no repositioning inside an open italics span"),
                      ("O-TEXT", "texts are kept, in order"),
                      ("O-EXTENT", "a text is italic in the output exactly when it was sent while italics were on")):
        b = bad.get(ob, [])
        report.check(not b, "R-ITALICS-FOLD", p.fn, f"{ob}: {label}",
                     {"sequences_folded": n, "max_length": max_len, "shortest_offending": sorted(b, key=lambda x: len(x["nodes"]))[:3]},
                     clause)
    report.count("italics_sequences_folded", n)
