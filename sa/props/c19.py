"""C19 - timing adjustment and concurrent-caption merging keep all text in order.

Decided clauses: 1 R-AFFINE retime (t*skew+offset for start and end), keep-test reads
the NEW start and is `>= 0`, kept captions appended in order, nodes untouched;
2 merge key (both start and end of consecutive captions), exactly one break between
merged captions, first caption's times.  NOT decided: maximality of runs, idempotence.
"""
import ast
import re

from ..core.tree import AnalysisError
from ..core.constfold import Folder
from ..core.astutil import walk_no_nested, call_name, short, src, kwarg, resolve_local, enclosing_conjuncts
from ..engines.symeval import SymEvaluator, Poly, Param, SObj, _Path
from ..engines.affine import check_affine

BASE = "pycaption/base.py"


def run(ctx, report):
    folder = ctx.memo("folder", lambda: Folder(ctx.index))
    report.section("adjust_caption_timing effects", retime_effects, ctx, report)
    report.structural_section("adjust_caption_timing (symbolic form)", "R-GRID: adjust_caption_timing folded on the grid of skews and offsets "
                              "(merge_fold.retime: the map t*skew+offset, the boundary at zero, order, nodes, every language, aliased "
                              "captions)", retime, ctx, report, folder)
    report.section("merge", merging, ctx, report)
    from . import merge_fold
    report.section("retiming on a grid", merge_fold.retime, ctx, report)


def retime_effects(ctx, report):
    """shape-independent obligations: the list walked over is not changed while it is walked, and the
    re-timed list is stored unconditionally under its language"""
    fn = ctx.index.get_function(BASE, "CaptionSet.adjust_caption_timing")
    report.covered(fn)
    bad = []
    n_loops = 0
    for lp in walk_no_nested(fn.node):
        if not isinstance(lp, ast.For):
            continue
        n_loops += 1
        it = src(lp.iter)
        for c in walk_no_nested(lp):
            if isinstance(c, ast.Call) and isinstance(c.func, ast.Attribute) and src(c.func.value) == it \
                    and c.func.attr in ("remove", "pop", "insert", "append", "extend", "clear", "sort", "reverse"):
                bad.append({"loop_over": it, "mutation": short(c)})
            if isinstance(c, ast.Delete) and any(it in src(t) for t in c.targets):
                bad.append({"loop_over": it, "mutation": short(c)})
    if n_loops == 0:
        raise AnalysisError("adjust_caption_timing: no loop found")
    report.check(not bad, "R-ITER-MUTATE", fn, "the caption list is not modified while it is iterated",
                 {"loops": n_loops, "offending": bad,
                  "why": "removing an element during iteration skips the element after it: that caption is neither "
                         "re-timed nor filtered"} if bad else {"loops": n_loops}, "1")
    sc = ctx.index.get_function(BASE, "CaptionSet.set_captions")
    report.covered(sc)
    stores = [n for n in walk_no_nested(sc.node) if isinstance(n, ast.Assign) and isinstance(n.targets[0], ast.Subscript)
              and src(n.targets[0].value) == "self._captions"]
    if len(stores) != 1:
        raise AnalysisError("CaptionSet.set_captions: store into self._captions not unique")
    guards = enclosing_conjuncts(sc, stores[0]) or []
    ok = not guards and src(stores[0].targets[0].slice) == sc.params[1] and src(stores[0].value) == sc.params[2]
    report.check(ok, "R-FIELD-ROUTING", (sc, stores[0]),
                 "set_captions stores the given list under the given language, unconditionally (an empty result "
                 "replaces the old list too)", {"statement": short(stores[0]), "only_under": guards}, "1")


def retime(ctx, report, folder):
    top = ctx.index.get_function(BASE, "CaptionSet.adjust_caption_timing")
    report.covered(top)
    # the routine that holds the re-timing loop: adjust_caption_timing itself or a private helper it calls
    from ..core.astutil import closure
    holders = [f for f in closure(ctx.index, top) if any(
        isinstance(n, ast.For) and any(isinstance(s_, ast.Assign) and isinstance(s_.targets[0], ast.Attribute)
                                       and s_.targets[0].attr == "start" for s_ in walk_no_nested(n)) for n in walk_no_nested(f.node))]
    if len(holders) != 1:
        raise AnalysisError(f"adjust_caption_timing: loop that re-times captions not found ({len(holders)} candidates)")
    fn = holders[0]
    report.covered(fn)
    ev = SymEvaluator(ctx.index, folder)
    stores = {}
    order = []
    for n in walk_no_nested(fn.node):
        if isinstance(n, ast.Assign) and len(n.targets) == 1 and isinstance(n.targets[0], ast.Attribute) \
                and isinstance(n.targets[0].value, ast.Name):
            key = f"{n.targets[0].value.id}.{n.targets[0].attr}"
            stores.setdefault(key, []).append(n)
            order.append((n.lineno, "store", key, n))
        if isinstance(n, ast.If):
            order.append((n.lineno, "if", src(n.test), n))
    loopvar = None
    for n in walk_no_nested(fn.node):
        if isinstance(n, ast.For) and any(isinstance(s, ast.Assign) and isinstance(s.targets[0], ast.Attribute)
                                          and s.targets[0].attr == "start" for s in walk_no_nested(n)):
            loopvar = n.target.id if isinstance(n.target, ast.Name) else None
            loop = n
    if loopvar is None:
        raise AnalysisError("adjust_caption_timing: loop that re-times captions not found")
    for attr in ("start", "end"):
        st = stores.get(f"{loopvar}.{attr}", [])
        if len(st) != 1:
            raise AnalysisError(f"adjust_caption_timing: store to {loopvar}.{attr} not unique")
        p = _Path({loopvar: Param("c"), "rate_skew": Param("rate_skew"), "offset": Param("offset"),
                   "self": SObj("self")}, [])
        (pp, v), = ev._eval(st[0].value, p, fn)
        check_affine(report, "R-AFFINE", (fn, st[0]), f"new {attr} = {attr} * skew + offset", v,
                     {f"$c.{attr}*$rate_skew": 1, "$offset": 1},
                     {"$c.start", "$c.end", "$rate_skew", "$offset"}, "1")
    # keep-test
    tests = [n for n in walk_no_nested(loop) if isinstance(n, ast.If)]
    keep = [n for n in tests if any(isinstance(c, ast.Call) and isinstance(c.func, ast.Attribute)
                                    and c.func.attr == "append" for c in walk_no_nested(n))]
    if len(keep) != 1:
        raise AnalysisError("adjust_caption_timing: keep-test not found")
    t = keep[0].test
    ok = isinstance(t, ast.Compare) and len(t.ops) == 1 and src(t.left) == f"{loopvar}.start" \
        and isinstance(t.comparators[0], ast.Constant) and t.comparators[0].value == 0
    if not ok:
        rev = isinstance(t, ast.Compare) and len(t.ops) == 1 and src(t.comparators[0]) == f"{loopvar}.start" \
            and isinstance(t.left, ast.Constant) and t.left.value == 0
        if rev:
            opn = {ast.LtE: ">=", ast.Lt: ">", ast.GtE: "<=", ast.Gt: "<"}.get(type(t.ops[0]), "?")
        else:
            raise AnalysisError(f"adjust_caption_timing: keep-test shape not recognised: {src(t)}")
    else:
        opn = {ast.GtE: ">=", ast.Gt: ">", ast.LtE: "<=", ast.Lt: "<", ast.NotEq: "!=", ast.Eq: "=="}.get(type(t.ops[0]), "?")
    report.check(opn == ">=", "R-BOUNDARY", (fn, keep[0]), "captions are kept exactly when the new start is >= 0",
                 {"test": src(t), "operator": opn, "required": ">=",
                  "why": "a caption whose new start is exactly 0 is not negative and must survive"}, "1")
    start_store = stores[f"{loopvar}.start"][0]
    report.check(start_store.lineno < keep[0].lineno, "R-ORDER", fn, "the keep-test reads the NEW start",
                 {"store_line": start_store.lineno, "test_line": keep[0].lineno}, "1")
    # effects: no store to nodes, appended in order, stored back under the same language
    bad = [short(n) for n in walk_no_nested(fn.node)
           if isinstance(n, (ast.Assign, ast.AugAssign)) and "nodes" in src(n.targets[0] if isinstance(n, ast.Assign) else n.target)]
    bad += [short(n) for n in walk_no_nested(fn.node) if isinstance(n, ast.Call) and isinstance(n.func, ast.Attribute)
            and n.func.attr in ("insert", "sort", "reverse", "pop", "remove") ]
    report.check(not bad, "R-APPEND-ORDER", fn, "nodes untouched; surviving captions appended in iteration order",
                 {"offending": bad} if bad else None, "1")
    sc = [c for c in walk_no_nested(top.node) if isinstance(c, ast.Call) and call_name(c) == "self.set_captions"]
    ok = len(sc) == 1 and len(sc[0].args) == 2 and src(sc[0].args[0]) in [src(n.target) for n in walk_no_nested(top.node)
                                                                          if isinstance(n, ast.For)]
    # ... and what is stored is the list the kept captions were appended to
    kept_list = None
    for c in walk_no_nested(keep[0]):
        if isinstance(c, ast.Call) and isinstance(c.func, ast.Attribute) and c.func.attr == "append":
            kept_list = src(c.func.value)
    if ok:
        stored = src(resolve_local(top, sc[0].args[1], keep=(kept_list,)))
        if fn is top:
            ok = stored == kept_list
        else:
            rets = [src(n.value) for n in walk_no_nested(fn.node) if isinstance(n, ast.Return) and n.value is not None]
            ok = rets == [kept_list] and re.search(r"\b" + re.escape(fn.name) + r"\(", stored) is not None
    report.check(ok, "R-FIELD-ROUTING", top, "the re-timed list replaces the list of the same language",
                 {"set_captions": [short(c) for c in sc], "kept_captions_collected_in": kept_list}, "1")


def merging(ctx, report):
    from . import merge_fold
    merge_fold.run(ctx, report, clause="2")
