"""C19 - timing adjustment and concurrent-caption merging keep all text in order.

Decided clauses: 1 R-AFFINE retime (t*skew+offset for start and end), keep-test reads
the NEW start and is `>= 0`, kept captions appended in order, nodes untouched;
2 merge key (both start and end of consecutive captions), exactly one break between
merged captions, first caption's times.  NOT decided: maximality of runs, idempotence.
"""
import ast
import re

from ..core.tree import AnalysisError
from ..core.constfold import Folder
from ..core.astutil import walk_no_nested, call_name, short, src, kwarg, resolve_local, enclosing_conjuncts
from ..engines.symeval import SymEvaluator, Poly, Param, SObj, _Path
from ..engines.affine import check_affine
from .c02 import merge_keys

BASE = "pycaption/base.py"


def run(ctx, report):
    folder = ctx.memo("folder", lambda: Folder(ctx.index))
    report.section("adjust_caption_timing effects", retime_effects, ctx, report)
    report.section("adjust_caption_timing", retime, ctx, report, folder)
    report.section("merge", merging, ctx, report)
    report.section("runs", runs, ctx, report)
    report.not_decided += ["maximality of merged runs", "idempotence of a second merge"]


def retime_effects(ctx, report):
    """shape-independent obligations: the list walked over is not changed while it is walked, and the
    re-timed list is stored unconditionally under its language"""
    fn = ctx.index.get_function(BASE, "CaptionSet.adjust_caption_timing")
    report.covered(fn)
    bad = []
    n_loops = 0
    for lp in walk_no_nested(fn.node):
        if not isinstance(lp, ast.For):
            continue
        n_loops += 1
        it = src(lp.iter)
        for c in walk_no_nested(lp):
            if isinstance(c, ast.Call) and isinstance(c.func, ast.Attribute) and src(c.func.value) == it \
                    and c.func.attr in ("remove", "pop", "insert", "append", "extend", "clear", "sort", "reverse"):
                bad.append({"loop_over": it, "mutation": short(c)})
            if isinstance(c, ast.Delete) and any(it in src(t) for t in c.targets):
                bad.append({"loop_over": it, "mutation": short(c)})
    if n_loops == 0:
        raise AnalysisError("adjust_caption_timing: no loop found")
    report.check(not bad, "R-ITER-MUTATE", fn, "the caption list is not modified while it is iterated",
                 {"loops": n_loops, "offending": bad,
                  "why": "removing an element during iteration skips the element after it: that caption is neither "
                         "re-timed nor filtered"} if bad else {"loops": n_loops}, "1")
    sc = ctx.index.get_function(BASE, "CaptionSet.set_captions")
    report.covered(sc)
    stores = [n for n in walk_no_nested(sc.node) if isinstance(n, ast.Assign) and isinstance(n.targets[0], ast.Subscript)
              and src(n.targets[0].value) == "self._captions"]
    if len(stores) != 1:
        raise AnalysisError("CaptionSet.set_captions: store into self._captions not unique")
    guards = enclosing_conjuncts(sc, stores[0]) or []
    ok = not guards and src(stores[0].targets[0].slice) == sc.params[1] and src(stores[0].value) == sc.params[2]
    report.check(ok, "R-FIELD-ROUTING", (sc, stores[0]),
                 "set_captions stores the given list under the given language, unconditionally (an empty result "
                 "replaces the old list too)", {"statement": short(stores[0]), "only_under": guards}, "1")


def retime(ctx, report, folder):
    top = ctx.index.get_function(BASE, "CaptionSet.adjust_caption_timing")
    report.covered(top)
    # the routine that holds the re-timing loop: adjust_caption_timing itself or a private helper it calls
    from ..core.astutil import closure
    holders = [f for f in closure(ctx.index, top) if any(
        isinstance(n, ast.For) and any(isinstance(s_, ast.Assign) and isinstance(s_.targets[0], ast.Attribute)
                                       and s_.targets[0].attr == "start" for s_ in n.body) for n in walk_no_nested(f.node))]
    if len(holders) != 1:
        raise AnalysisError(f"adjust_caption_timing: loop that re-times captions not found ({len(holders)} candidates)")
    fn = holders[0]
    report.covered(fn)
    ev = SymEvaluator(ctx.index, folder)
    stores = {}
    order = []
    for n in walk_no_nested(fn.node):
        if isinstance(n, ast.Assign) and len(n.targets) == 1 and isinstance(n.targets[0], ast.Attribute) \
                and isinstance(n.targets[0].value, ast.Name):
            key = f"{n.targets[0].value.id}.{n.targets[0].attr}"
            stores.setdefault(key, []).append(n)
            order.append((n.lineno, "store", key, n))
        if isinstance(n, ast.If):
            order.append((n.lineno, "if", src(n.test), n))
    loopvar = None
    for n in walk_no_nested(fn.node):
        if isinstance(n, ast.For) and any(isinstance(s, ast.Assign) and isinstance(s.targets[0], ast.Attribute)
                                          and s.targets[0].attr == "start" for s in n.body):
            loopvar = n.target.id if isinstance(n.target, ast.Name) else None
            loop = n
    if loopvar is None:
        raise AnalysisError("adjust_caption_timing: loop that re-times captions not found")
    for attr in ("start", "end"):
        st = stores.get(f"{loopvar}.{attr}", [])
        if len(st) != 1:
            raise AnalysisError(f"adjust_caption_timing: store to {loopvar}.{attr} not unique")
        p = _Path({loopvar: Param("c"), "rate_skew": Param("rate_skew"), "offset": Param("offset"),
                   "self": SObj("self")}, [])
        (pp, v), = ev._eval(st[0].value, p, fn)
        check_affine(report, "R-AFFINE", (fn, st[0]), f"new {attr} = {attr} * skew + offset", v,
                     {f"$c.{attr}*$rate_skew": 1, "$offset": 1},
                     {"$c.start", "$c.end", "$rate_skew", "$offset"}, "1")
    # keep-test
    tests = [n for n in walk_no_nested(loop) if isinstance(n, ast.If)]
    keep = [n for n in tests if any(isinstance(c, ast.Call) and isinstance(c.func, ast.Attribute)
                                    and c.func.attr == "append" for c in walk_no_nested(n))]
    if len(keep) != 1:
        raise AnalysisError("adjust_caption_timing: keep-test not found")
    t = keep[0].test
    ok = isinstance(t, ast.Compare) and len(t.ops) == 1 and src(t.left) == f"{loopvar}.start" \
        and isinstance(t.comparators[0], ast.Constant) and t.comparators[0].value == 0
    if not ok:
        rev = isinstance(t, ast.Compare) and len(t.ops) == 1 and src(t.comparators[0]) == f"{loopvar}.start" \
            and isinstance(t.left, ast.Constant) and t.left.value == 0
        if rev:
            opn = {ast.LtE: ">=", ast.Lt: ">", ast.GtE: "<=", ast.Gt: "<"}.get(type(t.ops[0]), "?")
        else:
            raise AnalysisError(f"adjust_caption_timing: keep-test shape not recognised: {src(t)}")
    else:
        opn = {ast.GtE: ">=", ast.Gt: ">", ast.LtE: "<=", ast.Lt: "<", ast.NotEq: "!=", ast.Eq: "=="}.get(type(t.ops[0]), "?")
    report.check(opn == ">=", "R-BOUNDARY", (fn, keep[0]), "captions are kept exactly when the new start is >= 0",
                 {"test": src(t), "operator": opn, "required": ">=",
                  "why": "a caption whose new start is exactly 0 is not negative and must survive"}, "1")
    start_store = stores[f"{loopvar}.start"][0]
    report.check(start_store.lineno < keep[0].lineno, "R-ORDER", fn, "the keep-test reads the NEW start",
                 {"store_line": start_store.lineno, "test_line": keep[0].lineno}, "1")
    # effects: no store to nodes, appended in order, stored back under the same language
    bad = [short(n) for n in walk_no_nested(fn.node)
           if isinstance(n, (ast.Assign, ast.AugAssign)) and "nodes" in src(n.targets[0] if isinstance(n, ast.Assign) else n.target)]
    bad += [short(n) for n in walk_no_nested(fn.node) if isinstance(n, ast.Call) and isinstance(n.func, ast.Attribute)
            and n.func.attr in ("insert", "sort", "reverse", "pop", "remove") ]
    report.check(not bad, "R-APPEND-ORDER", fn, "nodes untouched; surviving captions appended in iteration order",
                 {"offending": bad} if bad else None, "1")
    sc = [c for c in walk_no_nested(top.node) if isinstance(c, ast.Call) and call_name(c) == "self.set_captions"]
    ok = len(sc) == 1 and len(sc[0].args) == 2 and src(sc[0].args[0]) in [src(n.target) for n in walk_no_nested(top.node)
                                                                          if isinstance(n, ast.For)]
    # ... and what is stored is the list the kept captions were appended to
    kept_list = None
    for c in walk_no_nested(keep[0]):
        if isinstance(c, ast.Call) and isinstance(c.func, ast.Attribute) and c.func.attr == "append":
            kept_list = src(c.func.value)
    if ok:
        stored = src(resolve_local(top, sc[0].args[1], keep=(kept_list,)))
        if fn is top:
            ok = stored == kept_list
        else:
            rets = [src(n.value) for n in walk_no_nested(fn.node) if isinstance(n, ast.Return) and n.value is not None]
            ok = rets == [kept_list] and re.search(r"\b" + re.escape(fn.name) + r"\(", stored) is not None
    report.check(ok, "R-FIELD-ROUTING", top, "the re-timed list replaces the list of the same language",
                 {"set_captions": [short(c) for c in sc], "kept_captions_collected_in": kept_list}, "1")


def merging(ctx, report):
    merge_keys_only_base(ctx, report)
    fn = ctx.index.get_function(BASE, "merge")
    report.covered(fn)
    loops = [n for n in walk_no_nested(fn.node) if isinstance(n, ast.For)]
    outer = [l for l in loops if any(isinstance(x, ast.For) for x in l.body) or
             any(isinstance(x, ast.If) for x in l.body)]
    if not outer:
        raise AnalysisError("merge: loop over captions not found")
    lp = outer[0]
    brk = [n for n in lp.body if isinstance(n, ast.If) and any(
        isinstance(c, ast.Call) and (call_name(c) or "").endswith("create_break") for c in walk_no_nested(n))]
    if len(brk) != 1:
        report.violation("R-SEPARATOR", fn, "exactly one break is inserted between merged captions",
                         {"conditional_break_insertions": len(brk)}, "2")
    else:
        t = brk[0].test
        acc = None
        for c in walk_no_nested(brk[0]):
            if isinstance(c, ast.Call) and isinstance(c.func, ast.Attribute) and c.func.attr == "append":
                acc = src(c.func.value)
        plain = src(t) == acc or src(t) in (f"len({acc}) > 0", f"len({acc})", f"{acc} != []")
        if plain:
            report.ok("R-SEPARATOR", (fn, brk[0]), "a break separates every two merged captions",
                      {"guard": src(t)}, "2")
        elif isinstance(t, ast.BoolOp) and isinstance(t.op, ast.And) and any(src(v) == acc for v in t.values):
            report.violation("R-SEPARATOR", (fn, brk[0]), "a break separates every two merged captions",
                             {"guard": src(t), "why": "an additional condition suppresses the separator for some captions"}, "2")
        else:
            raise AnalysisError(f"merge: separator guard not recognised: {src(t)}")
        n_app = sum(1 for c in walk_no_nested(brk[0]) if isinstance(c, ast.Call) and isinstance(c.func, ast.Attribute)
                    and c.func.attr == "append")
        report.check(n_app == 1, "R-SEPARATOR", (fn, brk[0]), "exactly one break node per boundary", {"appends": n_app}, "2")
        # break before this caption's nodes
        idx_b = lp.body.index(brk[0])
        node_loop = [i for i, n in enumerate(lp.body) if isinstance(n, ast.For) or
                     (isinstance(n, (ast.Expr, ast.AugAssign)) and ".nodes" in src(n))]
        report.check(bool(node_loop) and idx_b < node_loop[0], "R-ORDER", fn,
                     "the separator precedes the nodes of the next caption", None, "2")
    capt = [c for c in walk_no_nested(fn.node) if isinstance(c, ast.Call) and call_name(c) == "Caption"]
    if len(capt) != 1:
        raise AnalysisError("merge: Caption(...) construction not found")
    param = fn.params[0]
    got = []
    for k, name in ((0, "start"), (1, "end")):
        a = capt[0].args[k] if len(capt[0].args) > k else kwarg(capt[0], name)
        got.append(src(resolve_local(fn, a)) if a is not None else None)
    ok = got == [f"{param}[0].start", f"{param}[0].end"]
    report.check(ok, "R-FIELD-ROUTING", (fn, capt[0]), "merged caption carries the first caption's start and end",
                 {"start_and_end_arguments_resolve_to": got}, "2")
    loopvar = src(lp.target)
    # what is iterated must also be appended (to the list that becomes the merged caption's nodes)
    for n in walk_no_nested(lp):
        if isinstance(n, ast.For) and n is not lp:
            v = src(n.target)
            apps = [c for c in walk_no_nested(n) if isinstance(c, ast.Call) and isinstance(c.func, ast.Attribute)
                    and c.func.attr == "append" and len(c.args) == 1 and src(c.args[0]) == v]
            guards = [x for x in walk_no_nested(n) if isinstance(x, (ast.If, ast.Continue, ast.Break))]
            report.check(len(apps) == 1 and not guards, "R-APPEND-ORDER", (fn, n),
                         "every node of a merged caption is appended, unconditionally",
                         {"appends_of_the_loop_variable": len(apps), "conditions_or_exits_in_the_loop": len(guards)}, "2")
    contrib = [src(n.iter) for n in walk_no_nested(lp) if isinstance(n, ast.For) and n is not lp]
    contrib += [src(c.args[0]) for c in walk_no_nested(lp) if isinstance(c, ast.Call) and isinstance(c.func, ast.Attribute)
                and c.func.attr == "extend" and len(c.args) == 1]
    contrib += [src(n.value) for n in walk_no_nested(lp) if isinstance(n, ast.AugAssign) and isinstance(n.op, ast.Add)]
    if not contrib:
        raise AnalysisError("merge: no statement adds a caption's nodes to the merged list (shape not recognised)")
    ok = all(c == f"{loopvar}.nodes" for c in contrib)
    report.check(ok, "R-APPEND-ORDER", fn, "all nodes of every merged caption are appended in order",
                 {"sources": contrib, "required": f"{loopvar}.nodes"}, "2")


def runs(ctx, report):
    """merge_concurrent_captions as a run detector, decided on the feasible paths of one loop
    iteration: every caption joins exactly one run (appended to the current run when its times
    equal the previous caption's, else it starts a new run after the current one was merged and
    stored), the previous-caption variable is advanced on every path, and the last run is merged
    and stored after the loop."""
    from ..engines.pathrules import feasible_paths
    fn = ctx.index.get_function(BASE, "merge_concurrent_captions")
    report.covered(fn)
    inner = None
    for lp in walk_no_nested(fn.node):
        if isinstance(lp, ast.For) and isinstance(lp.target, ast.Name) and not any(
                isinstance(x, ast.For) for x in walk_no_nested(lp) if x is not lp):
            if any(isinstance(c, ast.Call) and (call_name(c) or "") == "merge" for c in walk_no_nested(fn.node)):
                inner = lp
    if inner is None:
        raise AnalysisError("merge_concurrent_captions: loop over the captions of a language not found")
    cap = inner.target.id

    def classify(n):
        if isinstance(n, ast.Call) and isinstance(n.func, ast.Attribute) and n.func.attr == "append" and len(n.args) == 1:
            a = n.args[0]
            if isinstance(a, ast.Name) and a.id == cap:
                return "ADD"
            if isinstance(a, ast.Call) and (call_name(a) or "") == "merge":
                return "FLUSH"
        return None

    def classify_stmt(st):
        if isinstance(st, ast.Assign) and len(st.targets) == 1 and isinstance(st.targets[0], ast.Name):
            v = st.value
            if isinstance(v, ast.Name) and v.id == cap:
                return "SETLAST"
            if any(isinstance(x, (ast.List, ast.Tuple)) and len(x.elts) == 1 and isinstance(x.elts[0], ast.Name)
                   and x.elts[0].id == cap for x in ast.walk(v)):
                return "NEW"            # a fresh one-element run: [caption] / CaptionList([caption])
        return None
    paths = feasible_paths(fn, classify, resolve_ast=lambda t: resolve_local(fn, t, index=ctx.index), classify_stmt=classify_stmt)
    bad, n_iter = [], 0
    for items in paths:
        ends = [i for i, it in enumerate(items) if it[0] == "iter-end"]
        if len(ends) < 2:
            continue
        n_iter += 1
        body, tail = items[:ends[0]], items[ends[0]:]
        evs = [it[1] for it in body if it[0] == "ev"]
        tests = [(it[1], it[2]) for it in body if it[0] == "test"]
        eq = [b for t, b in tests if "==" in t and ".start" in t and ".end" in t]
        prev = [b for t, b in tests if "==" not in t]
        why = None
        if evs.count("ADD") + evs.count("NEW") != 1:
            why = "the caption joins %d runs on this path" % (evs.count("ADD") + evs.count("NEW"))
        elif "ADD" in evs and not (eq and eq[-1] is True):
            why = "the caption is added to the current run without its times being equal to the previous caption's"
        elif "ADD" in evs and "FLUSH" in evs:
            why = "the current run is stored although the caption continues it"
        elif "NEW" in evs and eq and eq[-1] is False and evs.count("FLUSH") != 1:
            why = "a new run starts but the run before it is stored %d times" % evs.count("FLUSH")
        elif "NEW" in evs and "FLUSH" in evs and evs.index("FLUSH") > evs.index("NEW"):
            why = "the old run is stored after it was replaced"
        elif "NEW" in evs and prev and prev[0] is False and "FLUSH" in evs:
            why = "a run is stored before the first caption"
        elif "SETLAST" not in evs:
            why = "the previous-caption variable is not advanced"
        tail_ev = [it[1] for it in tail if it[0] == "ev"]
        tail_tests = [b for it in tail if it[0] == "test" for b in [it[2]] if "merge" not in it[1]]
        if why is None and tail_tests and tail_tests[0] is True and tail_ev.count("FLUSH") != 1:
            why = "the last run is stored %d times after the loop" % tail_ev.count("FLUSH")
        if why:
            bad.append({"why": why, "events": evs, "tests": [f"{t}={b}" for t, b in tests][:4]})
    if n_iter < 3:
        raise AnalysisError(f"merge_concurrent_captions: only {n_iter} per-caption paths extracted (expected first / same times / other times)")
    # every language is processed: nothing leaves the routine from inside the per-language loop
    exits = [short(n) for lp in walk_no_nested(fn.node) if isinstance(lp, ast.For) and lp is not inner
             and inner in list(walk_no_nested(lp)) for n in walk_no_nested(lp) if isinstance(n, (ast.Return, ast.Break))]
    report.check(not exits, "R-LOOP", fn, "every language is merged (no return or break inside the loop over languages)",
                 {"exits_inside_the_language_loop": exits}, "2")
    final = False
    for items in paths:
        ends = [i for i, x in enumerate(items) if x[0] == "iter-end"]
        if len(ends) >= 2 and any(it[0] == "ev" and it[1] == "FLUSH" for it in items[ends[0]:]):
            final = True
    if not final:
        bad.append({"why": "the run that is still open when the loop ends is never merged and stored"})
    # the merged list replaces the language's list
    outer = [lp for lp in walk_no_nested(fn.node) if isinstance(lp, ast.For) and inner in list(walk_no_nested(lp)) and lp is not inner]
    stores = [c for c in walk_no_nested(fn.node) if isinstance(c, ast.Call) and (call_name(c) or "").endswith("set_captions")]
    merged_name = None
    for c in walk_no_nested(fn.node):
        if classify(c) == "FLUSH":
            merged_name = src(c.func.value)
    ok_store = len(outer) == 1 and len(stores) == 1 and len(stores[0].args) == 2 \
        and src(stores[0].args[0]) == src(outer[0].target) and src(stores[0].args[1]) == merged_name
    report.check(ok_store, "R-FIELD-ROUTING", fn, "the merged list is stored back under the language it was built from",
                 {"set_captions_calls": [short(c) for c in stores], "merged_list": merged_name}, "2")
    report.check(not bad, "R-RUNS", (fn, inner), "every caption joins exactly one run; a run is stored exactly when the next "
                 "caption's times differ, and once more after the loop", {"paths_per_caption": n_iter, "offending": bad[:3]}, "2")


def merge_keys_only_base(ctx, report):
    class _R:
        pass
    # reuse C02's rule, keep only the instance for merge_concurrent_captions
    before = len(report.instances)
    merge_keys(ctx, report)
    kept = []
    for inst in report.instances[before:]:
        if inst.qualname == "merge_concurrent_captions":
            inst.clause = "2"
            kept.append(inst)
    report.instances[before:] = kept
