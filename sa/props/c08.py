"""C08 - any chain of conversions preserves the cue timeline and text.

Only the PAIRWISE AGREEMENT clauses between each writer and the reader of the same format are decided
(DESIGN.md 4/C08); equality of cues after a chain and idempotence of a second pass are not.
 1 R-LANG-INCL  the timestamp language each writer prints is inside the language its reader accepts
 2 R-EXACT      the reader is exact on the writer's grid (no truncation of twice-rounded floats; same default
                frame rate; the MicroDVD rate header is recognised by BOTH frame fields being 0)
 3 R-TABLE-INVERSE escape and decode tables are mutual inverses on the hazard set (WebVTT), '&' first / last
 4 vocabularies style keys written == style keys read (shared with C11)
"""
import ast
import re

from ..core.tree import AnalysisError
from ..core.constfold import Folder
from ..core.astutil import walk_no_nested, call_name, short, src
from ..engines import regexlang as R
from ..engines.regexuse import regex_uses
from ..engines.symeval import SymEvaluator
from ..spec import time_grammar as T
from . import c01, c03, c04, c11_tables

D = R.cset("0123456789")


def run(ctx, report):
    folder = ctx.memo("folder", lambda: Folder(ctx.index))
    report.section("stamp languages", stamp_languages, ctx, report, folder)
    report.section("reader exactness", exactness, ctx, report, folder)
    report.section("escape/decode inverse", inverse_tables, ctx, report, folder)
    report.section("style vocabularies", vocab, ctx, report, folder)
    from . import chain_fold, dfxp_reader_fold
    report.section("conversion chains", chain_fold.run, ctx, report, {
        "chain": ("R-CHAIN", "1"), "second": ("R-CHAIN", "2"), "sami": ("R-CHAIN", "1")})
    report.section("DFXP round trip", dfxp_reader_fold.run, ctx, report, {"roundtrip": ("R-ROUNDTRIP", "1")})
    from . import sami_reader_fold
    report.section("SAMI round trip", sami_reader_fold.run, ctx, report, {"roundtrip": ("R-ROUNDTRIP", "1")})
    report.not_decided += ["equality of cues and text after chains longer than two formats and beyond the folded caption sets",
                           "behaviour of the real lxml / cssutils / BeautifulSoup on input outside the modelled subset "
                           "(sa/core/samimodels.py, sa/core/soupmodel.py)",
                           "whitespace normalisation by the parsers"]


def _relabel(report, start, clause):
    for inst in report.instances[start:]:
        inst.clause = clause


def stamp_languages(ctx, report, folder):
    alpha = R.Alphabet([chr(i) for i in range(0x20, 0x7F)])
    two = R.rep(D, 2, 2)
    shared = R.cat(two, R.lit(":"), two, R.lit(":"), two, R.lit("."), R.rep(D, 3, 3))        # Caption._format_timestamp, '.'
    vtt = R.cat(R.opt(R.cat(two, R.lit(":"))), two, R.lit(":"), two, R.lit("."), R.rep(D, 3, 3))
    # DFXP
    pat = folder.value("pycaption.dfxp.base", "TIME_EXPRESSION_PATTERN")
    top = ctx.index.get_function("pycaption/dfxp/base.py", "DFXPReader._convert_timestamp_to_microseconds")
    u = [x for x in regex_uses(top, folder) if x.method in ("search", "match", "fullmatch")][0]
    w = R.difference_witness(R.Lang(shared, alpha, "full"), R.lang_of_pattern(pat.pattern, alpha, u.mode, pat.flags))
    report.check(w is None, "R-LANG-INCL", top, "every begin/end the DFXP writers print is a time expression the DFXP reader accepts",
                 {"printed": "dd:dd:dd.ddd", **({"witness": w} if w is not None else {})}, "1")
    # WebVTT
    ts = folder.value("pycaption.webvtt", "TIMESTAMP_PATTERN")
    tl = folder.value("pycaption.webvtt", "TIMING_LINE_PATTERN")
    pt = ctx.index.get_function("pycaption/webvtt.py", "WebVTTReader._parse_timestamp")
    u = [x for x in regex_uses(pt, folder) if x.method in ("search", "match", "fullmatch")][0]
    w = R.difference_witness(R.Lang(vtt, alpha, "full"), R.lang_of_pattern(ts.pattern, alpha, u.mode, ts.flags))
    report.check(w is None, "R-LANG-INCL", pt, "every stamp the WebVTT writer prints is accepted by TIMESTAMP_PATTERN",
                 {"witness": w} if w is not None else None, "1")
    setting = R.star(R.cat(R.lit(" "), R.plus(R.cset(alpha.set - {" "}))))
    line = R.cat(vtt, R.lit(" --> "), vtt, setting)
    ptl = ctx.index.get_function("pycaption/webvtt.py", "WebVTTReader._parse_timing_line")
    u = [x for x in regex_uses(ptl, folder) if x.method in ("search", "match", "fullmatch")][0]
    w = R.difference_witness(R.Lang(line, alpha, "full"), R.lang_of_pattern(tl.pattern, alpha, u.mode, tl.flags))
    report.check(w is None, "R-LANG-INCL", ptl, "every timing line the WebVTT writer prints is accepted by TIMING_LINE_PATTERN",
                 {"witness": w} if w is not None else None, "1")
    # MicroDVD
    rd = ctx.index.get_function("pycaption/microdvd.py", "MicroDVDReader.read")
    u = [x for x in regex_uses(rd, folder) if x.method in ("search", "match", "fullmatch")][0]
    printed = R.cat(T.microdvd_prefix(), R.star(R.cset(alpha.set)))
    w = R.difference_witness(R.Lang(printed, alpha, "full"), R.lang_of_pattern(u.pattern, alpha, u.mode, u.flags))
    report.check(w is None, "R-LANG-INCL", rd, "every line the MicroDVD writer prints matches the reader's line pattern",
                 {"witness": w} if w is not None else None, "1")
    # SRT: reader splits on ':' and ',' - the printed stamp has exactly the fields the conversion indexes
    srt = R.cat(two, R.lit(":"), two, R.lit(":"), two, R.lit(","), R.rep(D, 3, 3))
    fields = R.cat(R.plus(D), R.lit(":"), R.plus(D), R.lit(":"), R.plus(D), R.lit(","), R.plus(D))
    w = R.difference_witness(R.Lang(srt, alpha, "full"), R.Lang(fields, alpha, "full"))
    report.check(w is None, "R-LANG-INCL", ctx.index.get_function("pycaption/srt.py", "SRTReader._srttomicro"),
                 "the printed SRT stamp has the three ':' fields and the ',' fraction the reader indexes",
                 {"witness": w} if w is not None else None, "1")
    # SAMI: start=<int> written, int(float(start)) read
    # (the written side is decided on the folded SAMI writer's documents: the reference consumer parses every
    #  start= with int(), markup_writer_fold "sami_syncs")
    from . import markup_writer_fold
    markup_writer_fold.run(ctx, report, {"sami_syncs": ("R-LANG-INCL", "1")})
    sr = ctx.index.get_function("pycaption/sami.py", "SAMIReader._translate_lang")
    from ..core.astutil import closure_src
    ok2 = re.search(r"int\(float\(\w+\)\)", closure_src(ctx.index, sr)) is not None
    report.check(ok2, "R-LANG-INCL", sr, "SAMI sync times are read back as numbers (int(float(start)))", None, "1")


def exactness(ctx, report, folder):
    ev = lambda: SymEvaluator(ctx.index, folder)
    start = len(report.instances)
    by = "R-CHAIN on the 25 format pairs (instants on the 40 ms grid every format carries exactly) and C01's lexical-forms fold"
    report.structural_section("SRT reader (symbolic form)", by, c01.srt_site, ctx, report, ev)
    report.structural_section("MicroDVD reader (symbolic form)", by, c01.microdvd_site, ctx, report, ev, folder)
    report.structural_section("WebVTT reader (symbolic form)", by, c01.webvtt_site, ctx, report, ev, folder)
    kept = []
    for inst in report.instances[start:]:
        if inst.rule in ("R-EXACT", "R-GUARD", "R-AFFINE", "R-FIELD-ROUTING", "R-STRUCTURE"):
            inst.clause = "2"
            kept.append(inst)
    report.instances[start:] = kept
    wr = ctx.index.get_function("pycaption/microdvd.py", "MicroDVDWriter._microtoframes")
    rd = ctx.index.get_function("pycaption/microdvd.py", "MicroDVDReader._framestomicro")
    dw = wr.node.args.defaults[-1] if wr.node.args.defaults else None
    dr = rd.node.args.defaults[-1] if rd.node.args.defaults else None
    rdr = ctx.index.get_function("pycaption/microdvd.py", "MicroDVDReader.read")
    def _num(f_, node_):
        # a literal, or an expression that folds to a number (a module-level constant)
        if node_ is None:
            return None
        if isinstance(node_, ast.Constant):
            return node_.value if isinstance(node_.value, (int, float)) and not isinstance(node_.value, bool) else None
        try:
            v_ = folder.eval_in(f_.module, node_)
        except AnalysisError:
            return None
        return v_ if isinstance(v_, (int, float)) and not isinstance(v_, bool) else None
    loc = [_num(rdr, n.value) for n in walk_no_nested(rdr.node) if isinstance(n, ast.Assign) and src(n.targets[0]) == "fps"]
    loc = [v for v in loc if v is not None]
    vals = [_num(wr, dw), _num(rd, dr)] + loc
    if any(v is None for v in vals) or len(vals) < 3:
        raise AnalysisError("MicroDVD frame rates: a default that does not fold to a number, or no fallback assignment in read()")
    report.check(len(set(float(v) for v in vals)) == 1, "R-TABLE-SIBLING", wr,
                 "writer, reader default and reader fallback use the same frame rate", {"values": vals}, "2")


def inverse_tables(ctx, report, folder):
    start = len(report.instances)
    c04.webvtt_decode(ctx, report, folder)
    report.instances[start:] = [i for i in report.instances[start:] if i.rule in ("R-ESCAPE-TABLE", "R-TABLE-INVERSE", "R-TABLE-REF")]
    _relabel(report, start, "3")
    enc = ctx.index.get_function("pycaption/webvtt.py", "WebVTTWriter._encode_illegal_characters")
    from ..spec import hazards as H
    from ..engines.strsteps import replace_steps
    steps = [f"replace:{a}→{b}" for k, a, b, _ in replace_steps(enc, folder, "WebVTT encoder") if k == "replace"]
    covered, amp, problems = H.coverage(tuple(steps))
    need = H.CONTEXT_HAZARDS["webvtt-cue-text"]
    report.check(need <= covered and amp == 1 and not problems, "R-ESCAPE-TABLE", enc,
                 "the WebVTT encoder handles '&' first, then '<' and '-->', without re-introducing a hazard",
                 {"steps": steps, "missing": sorted(need - covered), "problems": problems}, "3")
    # DFXP / SAMI: escape() on the way out, the HTML parser's standard entities on the way in
    for path, q in (("pycaption/dfxp/base.py", "DFXPWriter._encode"), ("pycaption/sami.py", "SAMIWriter._encode")):
        f = ctx.index.get_function(path, q)
        ret = [n.value for n in walk_no_nested(f.node) if isinstance(n, ast.Return)]
        ok = len(ret) == 1 and isinstance(ret[0], ast.Call) and call_name(ret[0]) == "escape" and len(ret[0].args) == 1 \
            and src(ret[0].args[0]) == f.params[1]
        report.check(ok, "R-ESCAPE-TABLE", f, "text is encoded with xml escape (&amp; &lt; &gt;), which every HTML/XML parser decodes",
                     [src(r) for r in ret], "3")


def vocab(ctx, report, folder):
    start = len(report.instances)
    c11_tables.run(ctx, report)
    _relabel(report, start, "4")
