"""C12 - positioning survives DFXP round trips and maps faithfully to WebVTT settings.

Decided clauses (DESIGN.md 4/C12):
 1 tables     external <-> internal alignment maps are mutual inverses (folded over the enums); WEBVTT_VERSION_OF is
              total; attribute names written == attribute names read; a layout gets a region iff it has any component
 2 R-AFFINE   WebVTT cue settings: position = origin.x + padding.start, line = origin.y + padding.before,
              size = extent.horizontal - padding.start - padding.end; align omitted exactly for centre
 3 verbatim   raw cue settings: timing-line group 3 -> Layout.webvtt_positioning -> written back unchanged, before any
              relativisation
 4 fallback   node -> caption -> language -> set -> default region
 5 keys       layouts are usable as dictionary keys (R-EQHASH, shared with C18); cue splitting test
NOT decided: effective layout per character after write + read.
"""
import ast
import re
from fractions import Fraction

from ..core.tree import AnalysisError
from ..core.constfold import Folder, EnumClass, Inst, Stub
from ..core.astutil import walk_no_nested, call_name, short, src, enclosing_conjuncts
from ..engines.symeval import SymEvaluator, Poly, SObj, SStr, Fmt, NONE, SNone, Raised
from ..engines.affine import check_affine
from ..engines import structural as S
from ..spec import geometry_spec as G

DFXP = "pycaption/dfxp/base.py"
VTT = "pycaption/webvtt.py"
GEOM = "pycaption/geometry.py"


def run(ctx, report):
    folder = ctx.memo("folder", lambda: Folder(ctx.index))
    report.section("alignment tables", alignment_tables, ctx, report, folder)
    report.section("attribute names", attribute_names, ctx, report)
    report.section("region creation", region_creation, ctx, report)
    report.structural_section("WebVTT arithmetic (symbolic form)", "R-GRID on the layout grid (webvtt_layout_fold)",
                              webvtt_arithmetic, ctx, report, folder)
    report.section("verbatim cue settings", verbatim, ctx, report, folder)
    report.structural_section("fallback order (shape)", "R-ORDER: get_positioning_info folded on every combination of levels",
                              fallback, ctx, report)
    report.section("fallback order", fallback_fold, ctx, report)
    report.structural_section("default before use (shape)", "the lang option of WebVTTWriter.write folded on a recording caption set for every "
                              "value (C14 webvtt_lang) and the whole-document WebVTT scenarios", default_before_use, ctx, report)
    report.section("WebVTT option guards", webvtt_option_guards, ctx, report)
    report.section("keys and splitting", keys_and_split, ctx, report)
    from . import webvtt_layout_fold, markup_writer_fold
    report.section("written DFXP documents", markup_writer_fold.run, ctx, report, {"layout": ("R-DOC-LAYOUT", "1")})
    report.section("WebVTT whole documents", webvtt_layout_fold.run_cues, ctx, report, {
        "verbatim": ("R-E2E", "4"), "split": ("R-E2E", "3")})
    from . import dfxp_reader_fold
    report.section("generated DFXP documents", dfxp_reader_fold.run, ctx, report, {
        "layout": ("R-DOC-LAYOUT", "1"), "roundtrip": ("R-ROUNDTRIP", "1")})
    report.section("WebVTT cue settings on a grid", webvtt_layout_fold.run, ctx, report, {
        "arith": ("R-GRID", "2", "position = left + left padding, line = top + top padding, size = width - horizontal paddings"),
        "align": ("R-GRID", "2", "align is the layout's horizontal alignment, omitted when centred"),
    })
    report.not_decided.append("effective layout per visible character after DFXP write + read (needs the parser)")


def alignment_tables(ctx, report, folder):
    hz = folder.value("pycaption.geometry", "HorizontalAlignmentEnum")
    vt = folder.value("pycaption.geometry", "VerticalAlignmentEnum")
    if not isinstance(hz, EnumClass) or not isinstance(vt, EnumClass):
        raise AnalysisError("alignment enums do not fold")
    ext_h = ctx.index.get_function(DFXP, "_create_external_horizontal_alignment")
    ext_v = ctx.index.get_function(DFXP, "_create_external_vertical_alignment")
    back = ctx.index.get_function(GEOM, "Alignment.from_horizontal_and_vertical_align")
    for f in (ext_h, ext_v, back):
        report.covered(f)
    for m in hz.members:
        out = folder.call_function(ext_h, [m])
        ok_v = out in G.TTML_TEXT_ALIGN
        inst = folder.call_function(back, [out, None]) if isinstance(out, str) else None
        rt = inst.args[0] if isinstance(inst, Inst) and inst.args else None
        report.check(ok_v and rt == m, "R-TABLE-INVERSE", ext_h, f"horizontal {m.name} -> {out!r} -> {rt}",
                     {"written": out, "read_back": str(rt), "ttml_vocabulary": sorted(G.TTML_TEXT_ALIGN)}, "1")
    for m in vt.members:
        out = folder.call_function(ext_v, [m])
        ok_v = out in G.TTML_DISPLAY_ALIGN
        inst = folder.call_function(back, [None, out]) if isinstance(out, str) else None
        rt = inst.args[1] if isinstance(inst, Inst) and len(inst.args) > 1 else None
        report.check(ok_v and rt == m, "R-TABLE-INVERSE", ext_v, f"vertical {m.name} -> {out!r} -> {rt}",
                     {"written": out, "read_back": str(rt), "ttml_vocabulary": sorted(G.TTML_DISPLAY_ALIGN)}, "1")
    # semantic pairing TTML: before=top, after=bottom
    want = {"TOP": "before", "CENTER": "center", "BOTTOM": "after"}
    got = {m.name: folder.call_function(ext_v, [m]) for m in vt.members}
    report.check(got == want, "R-TABLE-REF", ext_v, "top/center/bottom are written as before/center/after",
                 {"found": got, "required": want}, "1")
    tbl = folder.value("pycaption.webvtt", "WEBVTT_VERSION_OF")
    missing = [m.name for m in hz.members if m not in tbl]
    wrong = {m.name: tbl[m] for m in hz.members if m in tbl and tbl[m] != m.value}
    report.check(not missing and not wrong and set(tbl.values()) <= G.WEBVTT_ALIGN, "R-TABLE-TOTAL",
                 (VTT, "<module>"), "WEBVTT_VERSION_OF maps every horizontal alignment to the WebVTT keyword of that name",
                 {"missing": missing, "wrong": wrong}, "1")
    # default region
    dr = folder.value("pycaption.dfxp.base", "DFXP_DEFAULT_REGION")
    al = dr.kwargs.get("alignment") if isinstance(dr, Inst) else None
    ok = isinstance(al, Inst) and [getattr(a, "name", None) for a in al.args] == ["START", "BOTTOM"]
    report.check(ok, "R-TABLE-REF", (DFXP, "<module>"), "absent alignment takes the DFXP defaults start / after", str(dr), "1")


def attribute_names(ctx, report):
    wr = [ctx.index.get_function(DFXP, "_convert_layout_to_attributes"),
          ctx.index.get_function(DFXP, "_create_external_alignment")]
    rd = [ctx.index.get_function(DFXP, "LayoutInfoScraper.scrape_positioning_info", inline=True,
                                 keep=("_find_attribute", "_find_attribute_on_element_or_styles"))]
    names_w, names_r = set(), set()
    for f in wr:
        report.covered(f)
        for n in walk_no_nested(f.node):
            if isinstance(n, ast.Constant) and isinstance(n.value, str) and n.value.startswith("tts:"):
                names_w.add(n.value)
    for f in rd:
        report.covered(f)
        for n in walk_no_nested(f.node):
            if isinstance(n, ast.Constant) and isinstance(n.value, str) and n.value.startswith("tts:"):
                names_r.add(n.value)
    want = {"tts:origin", "tts:extent", "tts:padding", "tts:textAlign", "tts:displayAlign"}
    report.check(names_w == names_r == want, "R-TABLE-SIBLING", wr[0],
                 "the attribute names the writer emits are exactly those the reader looks up",
                 {"written": sorted(names_w), "read": sorted(names_r), "required": sorted(want)}, "1")
    # which component is written under which name
    f = wr[0]
    pairs = {}
    for n in walk_no_nested(f.node):
        if isinstance(n, ast.Assign) and isinstance(n.targets[0], ast.Subscript) and isinstance(n.targets[0].slice, ast.Constant):
            pairs[n.targets[0].slice.value] = src(n.value)
    lay = f.params[0]
    wantp = {"tts:origin": f"{lay}.origin.to_xml_attribute()", "tts:extent": f"{lay}.extent.to_xml_attribute()",
             "tts:padding": f"{lay}.padding.to_xml_attribute()"}
    report.check(pairs == wantp, "R-FIELD-ROUTING", f, "origin, extent and padding are written under their own names",
                 {"found": pairs}, "1")
    r = rd[0]
    calls = {}
    for n in walk_no_nested(r.node):
        if isinstance(n, ast.Call) and call_name(n) == "self._find_attribute" and len(n.args) >= 2 \
                and isinstance(n.args[1], ast.Constant):
            calls[n.args[1].value] = src(n.args[2]) if len(n.args) > 2 else None
    wantr = {"tts:origin": "Point.from_xml_attribute", "tts:extent": "Stretch.from_xml_attribute",
             "tts:padding": "Padding.from_xml_attribute", "tts:textAlign": None, "tts:displayAlign": None}
    report.check(calls == wantr, "R-FIELD-ROUTING", r, "each attribute is parsed by the factory of its own type",
                 {"found": calls}, "1")


def region_creation(ctx, report):
    fn = ctx.index.get_function(DFXP, "RegionCreator._create_unique_regions")
    report.covered(fn)
    from ..engines.pathrules import feasible_paths
    from ..core.astutil import resolve_local
    loops = [n for n in walk_no_nested(fn.node) if isinstance(n, ast.For) and
             any(isinstance(c, ast.Call) and (call_name(c) or "").endswith("new_tag") for c in walk_no_nested(n))]
    if len(loops) != 1:
        raise AnalysisError("_create_unique_regions: loop creating region elements not found")
    spec = src(loops[0].target)

    def classify(n):
        if isinstance(n, ast.Call) and (call_name(n) or "").endswith("new_tag") and n.args \
                and isinstance(n.args[0], ast.Constant) and n.args[0].value == "region":
            return "NEW"
        return None
    paths = feasible_paths(fn, classify, resolve_ast=lambda t: resolve_local(fn, t))
    attrs = ("origin", "extent", "padding", "alignment")
    want = sorted(f"{spec}.{a}" for a in attrs)
    created, skipped, bad = [], [], []
    for items in paths:
        if not any(it[0] == "iter-end" for it in items):
            continue        # zero iterations
        tests = {it[1]: it[2] for it in items if it[0] == "test" and it[1].startswith(spec + ".")}
        other = [it[1] for it in items if it[0] == "test" and not it[1].startswith(spec + ".")]
        new = any(it[0] == "ev" and it[1] == "NEW" for it in items)
        (created if new else skipped).append(tests)
        if other and new:
            bad.append({"extra_condition_on_region_creation": other})
        if new and not any(v for v in tests.values()):
            bad.append({"region_created_without_any_component": tests})
        if not new and any(v for v in tests.values()):
            bad.append({"component_present_but_no_region": tests})
    if not created:
        raise AnalysisError("_create_unique_regions: no path creates a region")
    tested = sorted({k for t in created + skipped for k in t})
    report.check(tested == want and not bad, "R-COMPLETE-CASES", (fn, loops[0]),
                 "a layout gets a region as soon as ANY of origin, extent, padding, alignment is present",
                 {"tested": tested, "required": want, "problems": bad[:4], "paths_creating": len(created),
                  "paths_skipping": len(skipped)}, "1")
    # that language-, caption- and node-level layouts are all collected is decided on the folded DFXP documents
    # (markup_writer_fold "layout": every visible character's effective region carries its layout, at the three levels)
    from . import markup_writer_fold
    markup_writer_fold.run(ctx, report, {"layout": ("R-COMPLETE-CASES", "1")})


def webvtt_arithmetic(ctx, report, folder):
    fn = ctx.index.get_function(VTT, "WebVTTWriter._convert_positioning")
    report.covered(fn)
    units = folder.value("pycaption.geometry", "UnitEnum")
    pct = units.by_name("PERCENT")
    hz = folder.value("pycaption.geometry", "HorizontalAlignmentEnum")
    C = ctx.index.by_path[GEOM].classes

    def size(name):
        return SObj("inst:Size", {"value": Poly.atom(name, True), "unit": pct}, name, cls=C["Size"])
    origin = SObj("inst:Point", {"x": size("ox"), "y": size("oy")}, "origin", cls=C["Point"])
    extent = SObj("inst:Stretch", {"horizontal": size("eh"), "vertical": size("ev")}, "extent", cls=C["Stretch"])
    pad = SObj("inst:Padding", {"before": size("pb"), "after": size("pa"), "start": size("ps"), "end": size("pe")},
               "padding", cls=C["Padding"])
    vocab = {"ox", "oy", "eh", "ev", "pb", "pa", "ps", "pe"}
    expect = {"position": {"ox": 1, "ps": 1}, "line": {"oy": 1, "pb": 1}, "size": {"eh": 1, "ps": -1, "pe": -1}}
    n = 0
    for member in list(hz.members) + [None]:
        ali = NONE if member is None else SObj("inst:Alignment", {"horizontal": member, "vertical": NONE}, "al",
                                               cls=C["Alignment"])
        lay = SObj("inst:Layout", {"origin": origin, "extent": extent, "padding": pad, "alignment": ali,
                                   "webvtt_positioning": NONE}, "layout", cls=C["Layout"])
        selfobj = SObj("self", {"relativize": True, "fit_to_screen": False, "video_width": NONE, "video_height": NONE},
                       "self", cls=ctx.index.get_class(VTT, "WebVTTWriter"))
        ev = SymEvaluator(ctx.index, folder)
        outs = [o for o in ev.run(fn, {"layout": lay}, self_obj=selfobj) if not isinstance(o.value, Raised)]
        if len(outs) != 1:
            raise AnalysisError(f"_convert_positioning: expected one path for alignment {member}, got {len(outs)}")
        settings = parse_settings(outs[0].value)
        name = "none" if member is None else member.name
        want_align = None if member is not None and member.value == "center" else (member.value if member else "start")
        report.check(settings.get("align") == want_align, "R-TABLE-REF", fn,
                     f"alignment {name}: align:{want_align or '(omitted: centre)'}",
                     {"written": settings.get("align")}, "2")
        if member is None or member.name == "LEFT":
            for key, exp in expect.items():
                v = settings.get(key)
                if not isinstance(v, SObj):
                    report.violation("R-AFFINE", fn, f"cue setting {key} is written", {"found": str(v)}, "2")
                    continue
                check_affine(report, "R-AFFINE", fn, f"{key} = " + " ".join(f"{'+' if c > 0 else '-'} {a}" for a, c in exp.items()),
                             v.attrs["value"], exp, vocab, "2")
                u = v.attrs.get("unit")
                report.check(getattr(u, "value", None) == "%", "R-AFFINE", fn, f"{key} is a percentage", str(u), "2")
            order = [k for k in settings.get("_order", [])]
            report.check(order == [k for k in ("align", "position", "line", "size") if k in order], "R-FIELD-ROUTING", fn,
                         "settings are written as align, position, line, size", order, "2")
        n += 1
    report.count("alignment_cases", n)


def parse_settings(val):
    """cue-settings string value -> {name: value object}"""
    toks = []

    def walk(v):
        if isinstance(v, SStr):
            if v.known is not None:
                toks.append(("lit", v.known))
            elif v.parts is not None:
                for p in v.parts:
                    walk(p)
            else:
                toks.append(("str", v))
        elif isinstance(v, Fmt):
            if isinstance(v.value, SStr) and (v.value.parts is not None or v.value.known is not None):
                walk(v.value)
            else:
                toks.append(("val", v.value))
        else:
            toks.append(("val", v))
    walk(val)
    out = {"_order": []}
    text = ""
    for kind, x in toks:
        if kind == "lit":
            text += x
            continue
        m = re.search(r"(\w+):$", text)
        if m:
            out[m.group(1)] = x
            out["_order"].append(m.group(1))
        text = ""
    m = re.findall(r"(\w+):(\w+)", "".join(x for k, x in toks if k == "lit"))
    for k, v in m:
        out[k] = v
        if k not in out["_order"]:
            out["_order"].insert(0, k)
    return out


def verbatim(ctx, report, folder):
    fn = ctx.index.get_function(VTT, "WebVTTWriter._convert_positioning")
    C = ctx.index.by_path[GEOM].classes
    lay = SObj("inst:Layout", {"origin": NONE, "extent": NONE, "padding": NONE, "alignment": NONE,
                               "webvtt_positioning": SStr("WP")}, "layout", cls=C["Layout"])
    selfobj = SObj("self", {"relativize": True, "fit_to_screen": True, "video_width": NONE, "video_height": NONE},
                   "self", cls=ctx.index.get_class(VTT, "WebVTTWriter"))
    ev = SymEvaluator(ctx.index, folder)
    # SStr truthiness: assume non-empty settings
    ev.assume["truthy(WP)"] = True
    outs = ev.run(fn, {"layout": lay}, self_obj=selfobj)
    ok = False
    shown = None
    if len(outs) == 1 and isinstance(outs[0].value, SStr) and outs[0].value.parts:
        parts = outs[0].value.parts
        shown = [(p.known if isinstance(p, SStr) else getattr(p.value, "path", "?")) for p in parts]
        ok = len(parts) == 2 and isinstance(parts[0], SStr) and parts[0].known == " " and isinstance(parts[1], Fmt) \
            and isinstance(parts[1].value, SStr) and parts[1].value.path == "WP" and not parts[1].spec
    report.check(ok, "R-VERBATIM", fn, "raw cue settings are written back unchanged (one leading space), before any relativisation",
                 {"written": shown, "paths": len(outs)}, "3")
    tl = ctx.index.get_function(VTT, "WebVTTReader._parse_timing_line")
    e1 = SymEvaluator(ctx.index, folder)
    key = ctx.index.get_function(VTT, "WebVTTReader._parse_timestamp").key
    e1.stubs[key] = lambda args, kw: Poly.atom(f"ts({args[0].path})")
    so = SObj("self", {"time_shift_microseconds": Poly.const(0), "ignore_timing_errors": True}, "self")
    outs = [o for o in e1.run(tl, None, self_obj=so) if isinstance(o.value, tuple)]
    seen = {}
    for o in outs:
        lay = o.value[2]
        with_settings = dict(o.conds).get("truthy(M[$line].g<3>)")
        if with_settings:
            wp = lay.attrs.get("webvtt_positioning") if isinstance(lay, SObj) else None
            seen[True] = isinstance(wp, SStr) and wp.path == "M[$line].g<3>"
        else:
            seen[False] = isinstance(lay, SNone)
    report.check(seen.get(True) is True and seen.get(False) is True, "R-VERBATIM", tl,
                 "group 3 of the timing line is stored as it is in Layout.webvtt_positioning (None when absent)",
                 seen, "3")
    # Layout keeps it
    init = ctx.index.get_function(GEOM, "Layout.__init__")
    ok = any(isinstance(n, ast.Assign) and src(n.targets[0]) == "self.webvtt_positioning" and src(n.value) == "webvtt_positioning"
             for n in walk_no_nested(init.node))
    report.check(ok, "R-VERBATIM", init, "Layout stores the raw settings string unmodified", None, "3")


def fallback(ctx, report):
    fn = ctx.index.get_function(DFXP, "RegionCreator.get_positioning_info", inline=True)
    report.covered(fn)
    seq = []
    for n in walk_no_nested(fn.node):
        if isinstance(n, ast.Assign) and src(n.targets[0]) == "layout_info":
            seq.append(src(n.value))
    want = ["None", "caption_node.layout_info", "caption.layout_info", "caption_set.get_layout_info(lang)",
            "caption_set.layout_info"]
    report.recognise(seq == want, "R-ORDER", fn, "layout is looked up at node, caption, language, set level in that order",
                     {"found": seq, "required": want}, "4")
    guards = []
    for n in walk_no_nested(fn.node):
        if isinstance(n, ast.If) and any(isinstance(s, ast.Assign) and src(s.targets[0]) == "layout_info" for s in n.body):
            guards.append(src(n.test))
    ok = len(guards) == 4 and guards[0] == "caption_node" and all(g.startswith("not layout_info") for g in guards[1:])
    report.recognise(ok, "R-GUARD", fn, "a coarser level is consulted only when the finer one gave nothing", guards, "4")
    ok, how = region_id_source(fn)
    report.recognise(ok, "R-GUARD", fn, "an unknown layout falls back to the default region id", {"region_id_is": how}, "4")


def fallback_fold(ctx, report):
    """clause 4 decided on values: RegionCreator.get_positioning_info folded for every combination of (node / caption / caption
    set handed in or not) x (a layout present or absent at node, caption, language and set level) x (the chosen layout known
    to the region table or not): the finest level that has a layout decides, the region id is the table's or the default one"""
    import itertools
    from .markup_writer_fold import World
    from ..core.constfold import FoldRaise
    W = World(ctx)
    cls = ctx.index.get_class(DFXP, "RegionCreator")
    fn = cls.find_method("get_positioning_info")
    report.covered(fn)
    conv = ctx.index.get_function(DFXP, "_convert_layout_to_attributes")
    default_id = W.F.value("pycaption.dfxp.base", "DFXP_DEFAULT_REGION_ID")
    specs = {"node": (10, 10, 30, 20, None), "caption": (20, 30, 40, 20, None), "language": (5, 60, 50, 10, None),
             "set": (15, 70, 60, 12, None)}
    bad, n = [], 0
    init = cls.find_method("__init__")
    shared = None          # one creator object for all calls of the fold, as a writer uses one for a whole document
    for passed in itertools.product((True, False), repeat=2):          # caption_node / caption handed in
        for present in itertools.product((True, False, "empty"), (True, False, "empty"), (True, False, "empty"), (True, False)):
            for known in (True, False):
                has = dict(zip(("node", "caption", "language", "set"), present))
                # "empty": a Layout object that positions nothing (all members None) - it counts as no layout at that level
                lay = {k: (W.layout(specs[k]) if has[k] is True else W.ev("Layout()", "pycaption.geometry") if has[k] == "empty" else None)
                       for k in specs}
                node = W.ev("CaptionNode.create_text('x', layout_info=l)", l=lay["node"]) if passed[0] else None
                cap = W.ev("Caption(1, 2, [CaptionNode.create_text('x')], layout_info=l)", l=lay["caption"]) if passed[1] else None
                cs = W.ev("CaptionSet({'en': CaptionList([Caption(1, 2, [CaptionNode.create_text('y')])], layout_info=l)}, layout_info=g)", l=lay["language"], g=lay["set"])
                order = ([lay["node"]] if passed[0] else []) + ([lay["caption"]] if passed[1] else []) + [lay["language"], lay["set"]]
                empties = [l_ for k, l_ in lay.items() if has[k] == "empty"]
                chosen = next((x for x in order if x is not None and not any(x is e_ for e_ in empties)), None)
                table = W.ev("{}")
                ids = {}
                for k_, (name, l_) in enumerate(lay.items()):
                    if l_ is not None and has[name] is True and (known or l_ is not chosen):
                        table = W.ev("dict(list(t.items()) + [(l, i)])", t=table, l=l_, i=f"r{k_}")
                        ids[name] = f"r{k_}"
                if shared is None:
                    # the creator's own constructor on an empty document, where it folds (it may keep state of its own between
                    # calls); otherwise an object with the two attributes the routine uses
                    shared = Stub("region creator", {}, cls=cls)
                    try:
                        soup = W.F.eval_in("pycaption.dfxp.base", ast.parse("BeautifulSoup(DFXP_BASE_MARKUP, 'lxml-xml')", mode="eval").body, {})
                        W.F.call_function(init, [soup, W.ev("CaptionSet({})")], {}, self_value=shared)
                    except (FoldRaise, AnalysisError):
                        shared = Stub("region creator", {}, cls=cls)
                me = shared
                me.attrs["_region_map"] = table
                me.attrs["_assigned_region_ids"] = set()
                n += 1
                case = {"handed_in": {"caption_node": passed[0], "caption": passed[1]}, "layout_present_at": has,
                        "chosen_layout_in_region_table": known}
                try:
                    rid, attrs = W.F.call_function(fn, ["en"], {"caption_set": cs, "caption": cap, "caption_node": node}, self_value=me)
                    want_attrs = W.F.call_function(conv, [chosen])
                except FoldRaise as e:
                    bad.append(dict(case, raises=f"{e.exc_name}: {e}"[:140]))
                    continue
                want_name = next((k for k, l_ in lay.items() if l_ is chosen and l_ is not None), None)
                want_id = ids.get(want_name, default_id) if chosen is not None else default_id
                if rid != want_id or attrs != want_attrs:
                    bad.append(dict(case, region_id=rid, required_region_id=want_id, decides=want_name or "nothing (default region)",
                                    attributes=str(attrs)[:120], required_attributes=str(want_attrs)[:120]))
    report.check(not bad, "R-ORDER", fn, f"get_positioning_info folded on {n} combinations of levels handed in, layouts present and "
                 "region-table contents: the finest level with a layout decides the region and the attributes; an unknown or absent "
                 "layout gives the default region id", {"combinations": n, "mismatches": bad[:3]}, "4")


def region_id_source(fn):
    """(ok, description): the region id handed out is `table.get(layout)` with DFXP_DEFAULT_REGION_ID
    as the fallback - spelled as a second assignment under `if not id`, as `... or DEFAULT`, or as the
    default argument of get()."""
    rets = [n.value for n in walk_no_nested(fn.node) if isinstance(n, ast.Return) and n.value is not None]
    if len(rets) != 1 or not isinstance(rets[0], ast.Tuple) or not isinstance(rets[0].elts[0], ast.Name):
        raise AnalysisError("get_positioning_info: returned (region id, attributes) pair not recognised")
    rid = rets[0].elts[0].id
    defs = [n for n in walk_no_nested(fn.node) if isinstance(n, ast.Assign) and len(n.targets) == 1 and src(n.targets[0]) == rid]
    texts = [src(d.value) for d in defs]
    get = r"self\._region_map\.get\((\w+)\)"
    if len(defs) == 1:
        m = re.fullmatch(get + r" or DFXP_DEFAULT_REGION_ID", texts[0]) or \
            re.fullmatch(r"self\._region_map\.get\((\w+), DFXP_DEFAULT_REGION_ID\)", texts[0])
        return (m is not None), texts
    if len(defs) == 2:
        first = re.fullmatch(get, texts[0])
        guards = enclosing_conjuncts(fn, defs[1]) or []
        ok = first is not None and texts[1] == "DFXP_DEFAULT_REGION_ID" and guards in ([f"not ({rid})"], [f"{rid} is None"])
        return ok, {"assignments": texts, "second_under": guards}
    return False, texts


def webvtt_option_guards(ctx, report):
    """In WebVTTWriter._convert_positioning the fit-to-screen step depends on the fit_to_screen option
    alone (not on whether relativization happened)."""
    fn = ctx.index.get_function(VTT, "WebVTTWriter._convert_positioning", inline=True)
    report.covered(fn)
    sites = [st for st in walk_no_nested(fn.node) if isinstance(st, (ast.Assign, ast.Expr)) and any(
        isinstance(c, ast.Call) and isinstance(c.func, ast.Attribute) and c.func.attr == "fit_to_screen"
        for c in walk_no_nested(st))]
    if len(sites) != 1:
        raise AnalysisError(f"_convert_positioning: fit_to_screen() call not unique ({len(sites)})")
    guards = enclosing_conjuncts(fn, sites[0]) or []
    lay = fn.params[1]
    allowed = {"self.fit_to_screen", lay, f"not ({lay}.webvtt_positioning)", f"not (not {lay})"}
    extra = [g for g in guards if g not in allowed]
    report.check("self.fit_to_screen" in guards and not extra, "R-GUARD", (fn, sites[0]),
                 "fit-to-screen is applied exactly when the fit_to_screen option is on (and there is a layout to fit)",
                 {"applied_under": guards, "unexpected_conditions": extra}, "2")


def default_before_use(ctx, report):
    """WebVTT's language-level fallback layout (self.global_layout) must be looked up for the
    language that is actually written: every read of the `lang` parameter happens after the
    statement that replaces its None default."""
    n_inst = 0
    for path, q in ((VTT, "WebVTTWriter.write"),):
        fn = ctx.index.get_function(path, q)
        report.covered(fn)
        a = fn.node.args
        pos = a.posonlyargs + a.args
        defaults = dict(zip([p.arg for p in pos[len(pos) - len(a.defaults):]], a.defaults))
        for p, d in defaults.items():
            if not (isinstance(d, ast.Constant) and d.value is None):
                continue
            body = [st for st in fn.node.body]
            at = None
            for i, st in enumerate(body):
                if isinstance(st, ast.If) and src(st.test) in (f"{p} is None", f"not {p}", f"{p} == None") \
                        and any(isinstance(x, ast.Assign) and src(x.targets[0]) == p for x in st.body):
                    at = i
                    break
                if isinstance(st, ast.Assign) and src(st.targets[0]) == p and re.match(rf"{p} or |{p} if {p}", src(st.value)):
                    at = i
                    break
            if at is None:
                continue
            n_inst += 1
            early = []
            for st in body[:at]:
                for x in ast.walk(st):
                    if isinstance(x, ast.Name) and x.id == p and isinstance(x.ctx, ast.Load):
                        early.append(short(st, 90))
                        break
            report.check(not early, "R-ORDER", (fn, body[at]),
                         f"`{p}` is read only after its None default has been replaced (the language-level layout "
                         "fallback is looked up for the language that is written)",
                         {"statements_reading_it_too_early": early}, "4")
    if n_inst == 0:
        raise AnalysisError("WebVTTWriter.write: defaulting of `lang` not found")


def keys_and_split(ctx, report):
    mod = ctx.index.by_path[GEOM]
    for name in ("Size", "Point", "Stretch", "Padding", "Alignment", "Layout"):
        report.structural_section(f"{name} __eq__/__hash__ (shape)", "R-GRID on a grid of values of the class (geometry_value_fold)",
                                  S.rule_eqhash, report, mod.classes[name],
                                  {"Layout": {"webvtt_positioning": "not a geometric component"}}, clause="5")
    from . import geometry_value_fold
    geometry_value_fold.run(ctx, report, clause_eq="5", clause_immut=None)
    from . import webvtt_cues
    webvtt_cues.splitting(ctx, report, "5")
