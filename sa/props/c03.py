"""C03 - written text survives a conformant parser: escaping and cue structure.

Decided clauses (DESIGN.md 4/C03):
 1 R-ESCAPE-ONCE caption TEXT is escaped exactly once on the way to every raw sink (DFXP x3, SAMI, WebVTT);
   the sinks are raw (prettify(formatter=None))
 2 R-ESCAPE-TABLE the escape routine neutralises the context's hazards, '&' first, no hazard re-introduced
 3 R-BLANKLINE  a BREAK node can never emit an empty line in SRT / WebVTT / MicroDVD
NOT decided: what a conformant parser makes of the output; text whose own characters are line terminators.
"""
import ast
import re

from ..core.tree import AnalysisError
from ..core.constfold import Folder
from ..core.astutil import walk_no_nested, call_name, short, src, closure_nodes, resolve_local
from ..engines import effects as E
from ..engines.taintrules import rule_escape_once, judge_piece, data_pieces
from ..spec import hazards as H

TEXT = {"text"}
MARKUP_WRITERS = [("pycaption/dfxp/base.py", "DFXPWriter"), ("pycaption/dfxp/extras.py", "SinglePositioningDFXPWriter"),
                  ("pycaption/dfxp/extras.py", "LegacyDFXPWriter"), ("pycaption/sami.py", "SAMIWriter")]


def run(ctx, report):
    E.validate_schema(ctx.index)
    for path, name in MARKUP_WRITERS:
        report.section(f"text escaping {name}", markup_text, ctx, report, path, name)
    report.section("WebVTT text", webvtt_text, ctx, report)
    report.section("blank lines", blank_lines, ctx, report)
    report.section("no text loss", no_text_loss, ctx, report)
    from . import writer_doc_fold
    report.section("written documents", writer_doc_fold.run, ctx, report, ("cues", "grammar", "text"),
                   {"cues": "2", "grammar": "2", "text": "1"},
                   {"cues": "R-DOC-CUES", "text": "R-DOC-TEXT", "grammar": "R-DOC-GRAMMAR"})
    from . import markup_writer_fold
    report.section("written markup documents", markup_writer_fold.run, ctx, report, {
        "wellformed": ("R-DOC-GRAMMAR", "2"), "text": ("R-DOC-TEXT", "1"), "sami_text": ("R-DOC-TEXT", "1")})
    report.not_decided += ["what a conformant XML/HTML parser makes of the DFXP/SAMI output (no parser is run; the SRT, "
                           "WebVTT and MicroDVD writers are folded on small caption sets and read back by reference parsers)",
                           "text whose own characters are line terminators; whitespace normalisation"]
    report.assume("xml.sax.saxutils.escape replaces & < >; bs4 formatter=None substitutes nothing")


def markup_text(ctx, report, path, name):
    cls = ctx.index.get_class(path, name)
    wr = cls.find_method("write")
    pname = wr.params[1]
    run = E.run_entry(ctx, cls, "write", {pname: E.model_param(ctx.index, "CaptionSet", f"P:{pname}")})
    for f in sorted(run.I.visited_functions):
        report.covered(f)
    n, bad = rule_escape_once(report, run, TEXT, "1", name)
    seen_text = any(p.src == "text" for e in run.events("sink") for p in data_pieces(e.value))
    if not seen_text:
        raise AnalysisError(f"{name}: caption text never reaches a sink in the abstract run (anchor lost)")


def webvtt_text(ctx, report):
    cls = ctx.index.get_class("pycaption/webvtt.py", "WebVTTWriter")
    run = E.run_entry(ctx, cls, "write", {"caption_set": E.model_param(ctx.index, "CaptionSet", "P:caption_set")})
    for f in sorted(run.I.visited_functions):
        report.covered(f)
    wr = cls.find_method("write")
    pieces = [p for p in run.ret.pieces if p.kind == "data" and p.src == "text"]
    if not pieces:
        raise AnalysisError("WebVTTWriter.write: caption text does not reach the returned document (anchor lost)")
    for p in sorted(pieces, key=str):
        why = judge_piece(p, "webvtt-cue-text")
        report.check(why is None, "R-ESCAPE-ONCE", wr, f"text -> webvtt-cue-text with {list(p.escapes)}",
                     {"problem": why} if why else {"hazards": sorted(H.CONTEXT_HAZARDS["webvtt-cue-text"])}, "1")
    # clause 2: table of the encoder itself (order and completeness), read from its source
    enc = ctx.index.get_function("pycaption/webvtt.py", "WebVTTWriter._encode_illegal_characters")
    report.covered(enc)
    from ..engines.strsteps import replace_steps
    folder = ctx.memo("folder", lambda: Folder(ctx.index))
    steps = [f"replace:{a}→{b}" for k, a, b, _ in replace_steps(enc, folder, "WebVTT encoder") if k == "replace"]
    covered, amp, problems = H.coverage(tuple(steps))
    need = H.CONTEXT_HAZARDS["webvtt-cue-text"]
    report.check(need <= covered and amp == 1 and not problems, "R-ESCAPE-TABLE", enc,
                 "the WebVTT encoder neutralises & < and -->, '&' first, without re-introducing a hazard",
                 {"steps": steps, "missing": sorted(need - covered), "problems": problems}, "2")


def blank_lines(ctx, report):
    idx = ctx.index
    # WebVTT --------------------------------------------------------------------------------
    from . import webvtt_cues
    webvtt_cues.blank_lines(ctx, report, "3")
    # SRT and MicroDVD: folded on runs of breaks (the spelling of the clean-up - a replace loop, a regex, a filter over the
    # lines - is the writer's business)
    from . import writer_doc_fold
    writer_doc_fold.blank_lines(ctx, report, "3")
    # MicroDVD: breaks are pipes; the trailing `|\n` clean-up
    # DFXP / SAMI write <br/>
    for path, q in (("pycaption/dfxp/base.py", "DFXPWriter._recreate_text"), ("pycaption/dfxp/extras.py", "LegacyDFXPWriter._recreate_text"),
                    ("pycaption/sami.py", "SAMIWriter._recreate_text")):
        f = idx.get_function(path, q)
        report.covered(f)
        from ..core.astutil import closure
        ok = any(v.startswith("<br/>") for g in closure(idx, f) for v in _strings_used(ctx, g))
        if ok:
            report.ok("R-BLANKLINE", f, "a break is written as <br/> markup (no blank line semantics)", None, "3")
        else:
            # (the markup may be assembled elsewhere: what a break becomes is decided by the markup writer fold, which reads the
            # written lines back with a reference parser)
            report.info("R-STRUCTURE", f, "the <br/> literal was not found in the routine or its private helpers (spelling not "
                        "recognised)", {"clause_decided_by": "R-DOC-TEXT / R-DOC-GRAMMAR on the folded DFXP and SAMI documents"}, None)


def _strings_used(ctx, f):
    """string literals of a routine and of the module-level constants it names"""
    folder = ctx.memo("folder", lambda: Folder(ctx.index))
    out = []
    for n in walk_no_nested(f.node):
        if isinstance(n, ast.Constant) and isinstance(n.value, str):
            out.append(n.value)
        elif isinstance(n, ast.Name) and isinstance(n.ctx, ast.Load):
            b = ctx.index.resolve(f.module, n.id)
            if b is not None and b.kind == "const":
                v = folder.try_value(b.module, b.name)
                if isinstance(v, str):
                    out.append(v)
    return out


PRINTABLE_PROBES = ["a", "Z", "0", " ", "\u00e9", "\u4e2d", "\U0001F600", "\U00020BB7", "\u200f", "&", "<", ">", '"', "'", "-",
                    "\t", "\n"]


def no_text_loss(ctx, report):
    """No writer deletes printable characters from what it writes: every regular-expression
    substitution applied on the way out (in write() and the routines it reaches) whose replacement
    is a constant must leave each printable probe character - ASCII, accented, CJK, two astral-plane
    characters, markup characters, white space - in place.  (Patterns are constants of the source;
    they are applied to the probes with the `re` module.)"""
    from ..engines.regexuse import regex_uses
    folder = ctx.memo("folder", lambda: Folder(ctx.index))
    base_writer = ctx.index.find_class("BaseWriter")
    writers = [c for c in ctx.index.subclasses(base_writer, strict=True)]
    n_fn, n_sub, bad = 0, 0, []
    seen = set()
    for cls in writers:
        wr = cls.find_method("write")
        if wr is None:
            continue
        from ..core.astutil import closure
        for f in closure(ctx.index, wr, depth=4, only_private=False):
            if f.key in seen or f.module.path.startswith("pycaption/geometry") or f.cls is not None and \
                    f.cls.name in ("CaptionSet", "Caption", "CaptionNode", "CaptionList"):
                continue
            seen.add(f.key)
            n_fn += 1
            for u in regex_uses(f, folder):
                if u.method != "sub":
                    continue
                node = u.node
                repl = node.args[1] if isinstance(node.func.value, ast.Name) and node.func.value.id == "re" and len(node.args) > 1 \
                    else (node.args[0] if node.args else None)
                if not (isinstance(repl, ast.Constant) and isinstance(repl.value, str)):
                    continue
                n_sub += 1
                lost = []
                for ch in PRINTABLE_PROBES:
                    try:
                        out = re.sub(u.pattern, repl.value, f"x{ch}y", flags=u.flags)
                    except re.error as e:
                        raise AnalysisError(f"{f.qualname}: pattern does not compile: {e}")
                    if ch not in out and not (repl.value and repl.value in out):
                        lost.append(f"U+{ord(ch):04X}")
                if lost:
                    bad.append({"routine": f.qualname, "pattern": u.pattern[:80], "replacement": repl.value,
                                "printable_characters_deleted": lost})
    if n_fn < 20:
        raise AnalysisError(f"no text loss: only {n_fn} routines reached from the writers' write()")
    report.check(not bad, "R-NO-TEXT-LOSS", ("pycaption/base.py", "BaseWriter"),
                 "no substitution on the way out deletes printable characters",
                 {"routines_scanned": n_fn, "constant_substitutions_found": n_sub, "offending": bad[:3]}, "1")
