"""C03 - written text survives a conformant parser: escaping and cue structure.

Decided clauses (DESIGN.md 4/C03):
 1 R-ESCAPE-ONCE caption TEXT is escaped exactly once on the way to every raw sink (DFXP x3, SAMI, WebVTT);
   the sinks are raw (prettify(formatter=None))
 2 R-ESCAPE-TABLE the escape routine neutralises the context's hazards, '&' first, no hazard re-introduced
 3 R-BLANKLINE  a BREAK node can never emit an empty line in SRT / WebVTT / MicroDVD
NOT decided: what a conformant parser makes of the output; text whose own characters are line terminators.
"""
import ast
import re

from ..core.tree import AnalysisError
from ..core.astutil import walk_no_nested, call_name, short, src
from ..engines import effects as E
from ..engines.taintrules import rule_escape_once, judge_piece, data_pieces
from ..spec import hazards as H

TEXT = {"text"}
MARKUP_WRITERS = [("pycaption/dfxp/base.py", "DFXPWriter"), ("pycaption/dfxp/extras.py", "SinglePositioningDFXPWriter"),
                  ("pycaption/dfxp/extras.py", "LegacyDFXPWriter"), ("pycaption/sami.py", "SAMIWriter")]


def run(ctx, report):
    E.validate_schema(ctx.index)
    for path, name in MARKUP_WRITERS:
        report.section(f"text escaping {name}", markup_text, ctx, report, path, name)
    report.section("WebVTT text", webvtt_text, ctx, report)
    report.section("blank lines", blank_lines, ctx, report)
    report.not_decided += ["what a conformant XML/HTML/WebVTT/SRT parser makes of the output (no parser is run)",
                           "text whose own characters are line terminators; whitespace normalisation"]
    report.assume("xml.sax.saxutils.escape replaces & < >; bs4 formatter=None substitutes nothing")


def markup_text(ctx, report, path, name):
    cls = ctx.index.get_class(path, name)
    wr = cls.find_method("write")
    pname = wr.params[1]
    run = E.run_entry(ctx, cls, "write", {pname: E.model_param(ctx.index, "CaptionSet", f"P:{pname}")})
    for f in sorted(run.I.visited_functions):
        report.covered(f)
    n, bad = rule_escape_once(report, run, TEXT, "1", name)
    seen_text = any(p.src == "text" for e in run.events("sink") for p in data_pieces(e.value))
    if not seen_text:
        raise AnalysisError(f"{name}: caption text never reaches a sink in the abstract run (anchor lost)")


def webvtt_text(ctx, report):
    cls = ctx.index.get_class("pycaption/webvtt.py", "WebVTTWriter")
    run = E.run_entry(ctx, cls, "write", {"caption_set": E.model_param(ctx.index, "CaptionSet", "P:caption_set")})
    for f in sorted(run.I.visited_functions):
        report.covered(f)
    wr = cls.find_method("write")
    pieces = [p for p in run.ret.pieces if p.kind == "data" and p.src == "text"]
    if not pieces:
        raise AnalysisError("WebVTTWriter.write: caption text does not reach the returned document (anchor lost)")
    for p in sorted(pieces, key=str):
        why = judge_piece(p, "webvtt-cue-text")
        report.check(why is None, "R-ESCAPE-ONCE", wr, f"text -> webvtt-cue-text with {list(p.escapes)}",
                     {"problem": why} if why else {"hazards": sorted(H.CONTEXT_HAZARDS["webvtt-cue-text"])}, "1")
    # clause 2: table of the encoder itself (order and completeness), read from its source
    enc = ctx.index.get_function("pycaption/webvtt.py", "WebVTTWriter._encode_illegal_characters")
    report.covered(enc)
    steps = []
    for n in walk_no_nested(enc.node):
        if isinstance(n, ast.Call) and isinstance(n.func, ast.Attribute) and n.func.attr == "replace" and len(n.args) == 2 \
                and all(isinstance(a, ast.Constant) for a in n.args):
            steps.append(f"replace:{n.args[0].value}→{n.args[1].value}")
    covered, amp, problems = H.coverage(tuple(steps))
    need = H.CONTEXT_HAZARDS["webvtt-cue-text"]
    report.check(need <= covered and amp == 1 and not problems, "R-ESCAPE-TABLE", enc,
                 "the WebVTT encoder neutralises & < and -->, '&' first, without re-introducing a hazard",
                 {"steps": steps, "missing": sorted(need - covered), "problems": problems}, "2")


def blank_lines(ctx, report):
    idx = ctx.index
    # WebVTT --------------------------------------------------------------------------------
    fn = idx.get_function("pycaption/webvtt.py", "WebVTTWriter._group_cues_by_layout")
    report.covered(fn)
    text_appends = [n for n in walk_no_nested(fn.node) if isinstance(n, ast.AugAssign) and src(n.target) == "s"
                    and "_encode_illegal_characters" in src(n.value)]
    if len(text_appends) != 1:
        raise AnalysisError("_group_cues_by_layout: text append not found")
    v = text_appends[0].value
    ok = isinstance(v, ast.BoolOp) and isinstance(v.op, ast.Or) and isinstance(v.values[-1], ast.Constant) \
        and isinstance(v.values[-1].value, str) and v.values[-1].value.strip() != ""
    report.check(ok, "R-BLANKLINE", (fn, text_appends[0]), "an empty text node is written as a visible placeholder, never as nothing",
                 {"appended": src(v), "why": "an empty text between two breaks would leave a blank line that ends the cue"}, "3")
    brk = None
    for n in walk_no_nested(fn.node):
        if isinstance(n, ast.If) and "CaptionNode.BREAK" in src(n.test):
            brk = n
    if brk is None:
        raise AnalysisError("_group_cues_by_layout: BREAK branch not found")
    guards = [src(n.test) for n in brk.body if isinstance(n, ast.If) and any(
        isinstance(s, ast.AugAssign) and isinstance(s.value, ast.Constant) and str(s.value.value).strip() for s in n.body)]
    need = {"i > 0 and nodes[i - 1].type_ != CaptionNode.TEXT", "i == 0"}
    nl = [s for s in brk.body if isinstance(s, ast.AugAssign) and isinstance(s.value, ast.Constant) and s.value.value == "\n"]
    order_ok = bool(nl) and all(isinstance(x, ast.If) for x in brk.body[:brk.body.index(nl[0])])
    report.check(set(guards) >= need and len(nl) == 1 and order_ok, "R-BLANKLINE", (fn, brk),
                 "a break after anything but text (or at the very start) first writes a placeholder",
                 {"placeholder_guards": guards, "required": sorted(need)}, "3")
    # SRT and MicroDVD: collapse of doubled newlines between assembly and emission ---------------
    for path, q, sep in (("pycaption/srt.py", "SRTWriter._recreate_lang", "\n"),
                         ("pycaption/microdvd.py", "MicroDVDWriter._recreate_lang", "\n")):
        f = idx.get_function(path, q)
        report.covered(f)
        collapse = []
        for n in walk_no_nested(f.node):
            if isinstance(n, ast.While) and isinstance(n.test, ast.Compare) and isinstance(n.test.ops[0], ast.In) \
                    and isinstance(n.test.left, ast.Constant) and n.test.left.value == sep * 2:
                body_ok = any(isinstance(s, ast.Assign) and isinstance(s.value, ast.Call) and
                              isinstance(s.value.func, ast.Attribute) and s.value.func.attr == "replace" and
                              [getattr(a, "value", None) for a in s.value.args] == [sep * 2, sep] and
                              src(s.targets[0]) == src(n.test.comparators[0]) for s in n.body)
                if body_ok:
                    collapse.append(n)
            if isinstance(n, ast.Call) and call_name(n) == "re.sub" and n.args and isinstance(n.args[0], ast.Constant) \
                    and n.args[0].value in (r"\n+", r"\n{2,}", "\n+", "\n\n+"):
                collapse.append(n)
        emit = [n for n in walk_no_nested(f.node) if isinstance(n, ast.AugAssign) and "new_content" in src(n.value)]
        ok = bool(collapse) and bool(emit) and all(c.lineno < emit[-1].lineno for c in collapse)
        report.check(ok, "R-BLANKLINE", f, "runs of line breaks are collapsed before the cue text is emitted",
                     {"collapse_steps": [short(c) for c in collapse],
                      "why": None if ok else "two consecutive BREAK nodes write an empty line, which ends the cue block"}, "3")
    # MicroDVD: breaks are pipes; the trailing `|\n` clean-up
    # DFXP / SAMI write <br/>
    for path, q in (("pycaption/dfxp/base.py", "DFXPWriter._recreate_text"), ("pycaption/dfxp/extras.py", "LegacyDFXPWriter._recreate_text"),
                    ("pycaption/sami.py", "SAMIWriter._recreate_text")):
        f = idx.get_function(path, q)
        report.covered(f)
        ok = any(isinstance(n, ast.Constant) and isinstance(n.value, str) and n.value.startswith("<br/>")
                 for n in walk_no_nested(f.node))
        report.check(ok, "R-BLANKLINE", f, "a break is written as <br/> markup (no blank line semantics)", None, "3")
