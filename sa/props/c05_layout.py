def run(ctx, report):
    report.notes.append("clause 3 pending symeval engine")
