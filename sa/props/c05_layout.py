"""C05 clauses 3, 4 (layout map, tab offsets) and the finite-domain folds of the
small pure predicates the decoder relies on (style classification, back-space
condition, tab-offset window)."""
import ast
import re
from fractions import Fraction

from ..core.tree import AnalysisError
from ..core.constfold import Folder
from ..core.astutil import walk_no_nested, call_name, short, src
from ..engines.symeval import SymEvaluator, Poly, SObj, SNone
from ..engines.affine import check_affine
from ..spec import cea608

SPC = "pycaption/scc/specialized_collections.py"
SM = "pycaption/scc/state_machines.py"
CONST = "pycaption.scc.constants"


def run(ctx, report):
    folder = ctx.memo("folder", lambda: Folder(ctx.index))
    report.section("layout map", layout_map, ctx, report, folder)
    report.section("tab offsets", tab_offsets, ctx, report, folder)
    report.section("style classes", style_classes, ctx, report, folder)
    report.section("backspace predicate", backspace, ctx, report, folder)


def layout_map(ctx, report, folder):
    fn = ctx.index.get_function(SPC, "_get_layout_from_tuple")
    report.covered(fn)
    outs = SymEvaluator(ctx.index, folder).run(fn)
    vals = [o for o in outs if isinstance(o.value, SObj)]
    nones = [o for o in outs if isinstance(o.value, SNone)]
    if len(vals) != 1:
        raise AnalysisError("_get_layout_from_tuple: expected one value path")
    lay = vals[0].value
    org = lay.attrs.get("origin")
    if not isinstance(org, SObj):
        raise AnalysisError("_get_layout_from_tuple: no origin")
    p0 = fn.params[0] if fn.params else "position_tuple"         # (the parameter by position)
    row, col = f"${p0}[0]", f"${p0}[1]"
    sa = cea608.SAFE_AREA
    xs = Fraction(sa["x1"] - sa["x0"], cea608.SCREEN_COLUMNS)
    ys = Fraction(sa["y1"] - sa["y0"], cea608.SCREEN_ROWS)
    x, y = org.attrs["x"], org.attrs["y"]
    check_affine(report, "R-AFFINE", fn, "x = 10 + 80*column/32 percent", x.attrs["value"],
                 {col: xs, "": sa["x0"]}, {row, col}, "3")
    check_affine(report, "R-AFFINE", fn, "y = 5 + 90*(row-1)/15 percent", y.attrs["value"],
                 {row: ys, "": sa["y0"] - ys}, {row, col}, "3")
    ux, uy = x.attrs.get("unit"), y.attrs.get("unit")
    report.check(getattr(ux, "value", None) == "%" and getattr(uy, "value", None) == "%", "R-AFFINE", fn,
                 "both coordinates are percentages", [str(ux), str(uy)], "3")
    al = lay.attrs.get("alignment")
    h = getattr(al.attrs.get("horizontal"), "name", None) if isinstance(al, SObj) else None
    v = getattr(al.attrs.get("vertical"), "name", None) if isinstance(al, SObj) else None
    report.check((h, v) == ("LEFT", "TOP"), "R-TABLE-REF", fn, "the origin is the top-left corner of the caption (LEFT/TOP)",
                 [h, v], "3")
    report.check(lay.attrs.get("extent") is None or isinstance(lay.attrs.get("extent"), SNone), "R-AFFINE", fn,
                 "no extent is invented", None, "3")


def tab_offsets(ctx, report, folder):
    tabs = folder.value(CONST, "PAC_TAB_OFFSET_COMMANDS")
    lo_t, hi_t = min(tabs.values()), max(tabs.values())
    fn = ctx.index.get_function(SM, "_PositioningTracker.update_positioning")
    report.covered(fn)
    # the window, observed on the tracker's own state: starting from one known address, which moves on the SAME row
    # are taken as an adjustment of that address (no repositioning demanded)?  Folded over the whole finite domain
    # (rows 1/8/15 x 32 x 32 columns), independent of how the routine spells the test.
    from ..core.constfold import Stub, FoldRaise
    init = fn.cls.find_method("__init__")
    accepted, other_row = set(), False
    n_eval = 0

    def moved(p0, p1):
        nonlocal n_eval
        t = Stub("tracker", {}, cls=fn.cls)
        try:
            if init is not None:
                folder.call_function(init, [], {}, self_value=t)
            folder.call_function(fn, [p0], {}, self_value=t)
            folder.call_function(fn, [p1], {}, self_value=t)
        except FoldRaise as e:
            raise AnalysisError(f"update_positioning raises on {p0} -> {p1}: {e}")
        except AnalysisError as e:
            raise AnalysisError(f"update_positioning: not foldable: {e}")
        n_eval += 1
        if "_repositioning_required" not in t.attrs:
            raise AnalysisError("update_positioning: the tracker has no _repositioning_required flag")
        return bool(t.attrs["_repositioning_required"])
    for r0 in (1, 8, 15):
        for c0 in range(32):
            for c1 in range(32):
                if c1 != c0 and not moved((r0, c0), (r0, c1)):
                    accepted.add(c1 - c0)
                if r0 + 2 <= 15 and c1 != c0 and not moved((r0, c0), (r0 + 2, c1)):
                    other_row = True
    report.check(accepted == set(tabs.values()) and not other_row, "R-TABLE-SIBLING", fn,
                 "the tab-offset window covers exactly the offsets of PAC_TAB_OFFSET_COMMANDS",
                 {"column_differences_taken_as_adjustment": sorted(accepted),
                  "accepted_on_another_row": other_row, "table_offsets": sorted(tabs.values()),
                  "evaluations": n_eval}, "4")
    up = ctx.index.get_function(SPC, "InstructionNodeCreator._update_positioning")
    report.covered(up)
    st = [n for n in walk_no_nested(up.node) if isinstance(n, ast.Assign) and src(n.targets[0]) == "positioning"
          and isinstance(n.value, ast.Tuple)]
    ok = len(st) == 1 and [src(e) for e in st[0].value.elts] == ["prev_positioning[0]", "prev_positioning[1] + tab_offset"]
    report.check(ok, "R-AFFINE", up, "a tab offset adds its value to the column of the last address, same row",
                 [short(s) for s in st], "4")
    src_def = [n for n in walk_no_nested(up.node) if isinstance(n, ast.Assign) and src(n.targets[0]) == "prev_positioning"]
    ok = len(src_def) == 1 and src(src_def[0].value) == "self._position_tracer.default"
    report.check(ok, "R-FIELD-ROUTING", up, "the offset is applied to the most recent preamble address (tracker default)",
                 [short(s) for s in src_def], "4")


def style_classes(ctx, report, folder):
    fn = ctx.index.get_function(SPC, "InstructionNodeCreator.get_style_for_command")
    report.covered(fn)
    style = folder.value(CONST, "STYLE_SETTING_COMMANDS")
    ital = folder.value(CONST, "ITALICS_COMMANDS")
    if not isinstance(style, dict) or len(style) < 100:
        raise AnalysisError("STYLE_SETTING_COMMANDS does not fold to a table of >= 100 codes")
    ref_pac = cea608.pac_table()

    def is_italic(code):
        if code in cea608.MIDROW_ITALICS:
            return True
        hb, lb = code[:2], code[2:]
        if hb in ref_pac and lb in ref_pac[hb]:
            return cea608.pac_attributes(lb)["italics"]
        return False
    wrong = []
    n = 0
    for code in sorted(style):
        try:
            got = folder.call_function(fn, [code])
        except AnalysisError as e:
            raise AnalysisError(f"get_style_for_command cannot be folded: {e}")
        n += 1
        if (got == "italic") != is_italic(code):
            wrong.append({"code": code, "classified_as": got, "italics_bit_in_cea608": is_italic(code)})
    report.check(not wrong, "R-TABLE-REF", fn,
                 "a style code is classified 'italic' exactly when CEA-608 gives it the italics attribute",
                 {"codes_folded": n, "misclassified": wrong[:6]}, "1")
    ref_it = sorted(c for c in style if is_italic(c))
    report.check(sorted(ital) == ref_it, "R-TABLE-REF", ("pycaption/scc/constants.py", "<module>"),
                 "ITALICS_COMMANDS is the set of style codes with the italics attribute",
                 {"found": len(ital), "reference": len(ref_it),
                  "difference": sorted(set(ital) ^ set(ref_it))[:8]}, "1")
    report.count("style_codes_folded", n)


def backspace(ctx, report, folder):
    from .c02 import resolve_local
    fn = ctx.index.get_function(SPC, "InstructionNodeCreator.handle_backspace")
    report.covered(fn)
    dels = [n for n in walk_no_nested(fn.node) if isinstance(n, ast.If) and any(
        isinstance(s, ast.Assign) and src(s.targets[0]).endswith(".text") and "[:-1]" in src(s.value) for s in n.body)]
    if len(dels) != 1:
        raise AnalysisError("handle_backspace: the deleting branch was not found")
    cond = resolve_local(fn, dels[0].test)
    ext = folder.value(CONST, "EXTENDED_CHARS")
    ext_code = sorted(ext)[0]
    wname = fn.params[1]
    rows = []
    bad = []
    for word, wk in (("94a1", "backspace"), (ext_code, "extended"), ("9420", "other")):
        for last, lk in ((ext[ext_code], "extended"), ("a", "basic")):
            # `last_char` is node.text[-1]: substitute the subscript by a constant
            import copy

            class Sub(ast.NodeTransformer):
                def visit_Subscript(self, node):
                    if src(node).endswith(".text[-1]"):
                        return ast.Constant(last)
                    return self.generic_visit(node)
            e2 = ast.fix_missing_locations(Sub().visit(copy.deepcopy(cond)))
            try:
                got = bool(folder.eval_in(fn.module, e2, {wname: word}))
            except AnalysisError as e:
                raise AnalysisError(f"handle_backspace: condition cannot be folded: {e}")
            want = True if wk == "backspace" else (lk != "extended" if wk == "extended" else False)
            rows.append({"word": wk, "previous_char": lk, "deletes": got})
            if got != want:
                bad.append({"word": wk, "previous_char": lk, "deletes": got, "required": want})
    report.check(not bad, "R-TRUTH-TABLE", (fn, dels[0]),
                 "back-space always erases; an extended character erases its stand-in unless that is itself extended",
                 {"condition": src(cond)[:200], "truth_table": rows, "wrong_rows": bad}, "1")
