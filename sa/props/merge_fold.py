"""C19 clause 2 / C02 (merging): `merge_concurrent_captions` and `merge` folded, small-scope exhaustive.

The two routines are folded (the checker's own evaluator on their source; nothing imported or
run) on stub caption sets with two languages.  The first language takes every sequence of up to
N captions over five timespans - (0, 2s), (2s, 4s), (2s + 400us, 4s: equal only after rounding to milliseconds),
(2s, 5s: same start, other end), (4s, 5s: same end, other start) -
so that runs of every length sit at every position, including a first run that starts at zero;
the second language holds a fixed other sequence.  Captions have one node, text-break-text, or text with a trailing break; in every other sequence each
caption is positioned, later captions higher on the screen.  The folded
result is compared with the definition:

  maximal runs of CONSECUTIVE captions with identical (start, end) become one caption carrying
  the first caption's times and style and all nodes in order, a line break between captions;
  every other caption keeps its times and nodes; each language keeps its own list; a second
  application changes nothing.
"""
import ast
import itertools

from ..core.tree import AnalysisError
from ..core.constfold import Folder, Stub, FoldRaise

BASE = "pycaption/base.py"
S = 1000000
SPANS = {"A": (0, 2 * S), "B": (2 * S, 4 * S), "E": (2 * S + 400, 4 * S), "D": (2 * S, 5 * S), "C": (4 * S, 5 * S)}


class World:
    def __init__(self, ctx):
        self.F = Folder(ctx.index)
        self.F.object_classes = ("Caption", "CaptionList", "CaptionNode", "Layout", "Point", "Size", "Alignment")
        self.fn = ctx.index.get_function(BASE, "merge_concurrent_captions")
        self.merge = ctx.index.get_function(BASE, "merge")
        self.n = 0
        self.k = 0
        self.with_layout = False

    def ev(self, text, **local):
        return self.F.eval_in("pycaption.base", ast.parse(text, mode="eval").body, local)

    def caption(self, span, tag, two):
        nodes = [self.ev("CaptionNode.create_text(t)", t=f"{tag}")]
        if two == 3:        # a style opened in this caption and closed in a later one (italics over two concurrent lines)
            nodes = [self.ev("CaptionNode.create_style(True, {'italics': True})")] + nodes
        elif two == 4:
            nodes += [self.ev("CaptionNode.create_style(False, {'italics': True})")]
        elif two:
            nodes += [self.ev("CaptionNode.create_break()")]
        if two == 1:
            nodes += [self.ev("CaptionNode.create_text(t)", t=f"{tag}'")]
        lay = None
        if self.with_layout:
            # captions listed later sit HIGHER on the screen: a merge that orders by position shows
            self.k += 1
            g = "pycaption.geometry"
            y = self.F.eval_in(g, ast.parse("Size(v, UnitEnum.PERCENT)", mode="eval").body, {"v": max(5, 90 - 7 * (self.k % 12))})
            x = self.F.eval_in(g, ast.parse("Size(10, UnitEnum.PERCENT)", mode="eval").body, {})
            lay = self.F.eval_in(g, ast.parse("Layout(origin=Point(x, y))", mode="eval").body, {"x": x, "y": y})
        return self.ev("Caption(s, e, nodes, style={'tag': t}, layout_info=lay)", s=SPANS[span][0], e=SPANS[span][1],
                       nodes=nodes, t=tag, lay=lay)

    def run(self, langs):
        """langs: {lang: [caption stubs]} -> {lang: [(start, end, [node descriptions], style)]}"""
        store = {k: list(v) for k, v in langs.items()}
        cs = Stub("caption_set", {}, methods={
            "get_languages": lambda: list(store),
            "get_captions": lambda l: store.get(l, []),
            "set_captions": lambda l, c: store.__setitem__(l, c),
            "is_empty": lambda: not any(store.values())})
        self.n += 1
        self.F.call_function(self.fn, [cs], {})
        return store


def _items(lst):
    if isinstance(lst, Stub) and "__list__" in lst.attrs:
        return list(lst.attrs["__list__"])
    if isinstance(lst, (list, tuple)):
        return list(lst)
    raise AnalysisError(f"merge fold: a language's captions are not a list after merging ({lst!r:.50})")


def _desc(cap):
    if not isinstance(cap, Stub) or "nodes" not in cap.attrs:
        raise AnalysisError(f"merge fold: merged list holds a non-caption ({cap!r:.50})")
    nodes = []
    for n in _items(cap.attrs["nodes"]):
        t = n.attrs.get("type_")
        nodes.append("<br>" if t == 3 else str(n.attrs.get("content")) if t == 1 else
                     f"<style {'on' if n.attrs.get('start') else 'off'} {n.attrs.get('content')}>")
    return (cap.attrs.get("start"), cap.attrs.get("end"), nodes, (cap.attrs.get("style") or {}).get("tag"))


def _expected(seq):
    out = []
    for span, tag, two in seq:
        nodes = [tag] + (["<br>"] if two in (1, 2) else []) + ([tag + "'"] if two == 1 else [])
        if two == 3:
            nodes = ["<style on {'italics': True}>"] + nodes
        elif two == 4:
            nodes += ["<style off {'italics': True}>"]
        if out and out[-1][4] == span:
            out[-1][2].extend(["<br>"] + nodes)
        else:
            out.append([SPANS[span][0], SPANS[span][1], list(nodes), tag, span])
    return [(a, b, c, d) for a, b, c, d, _ in out]


def run(ctx, report, clause="2", max_len=None, only=None, rename=None):
    if max_len is None:
        max_len = 5 if ctx.tier == "thorough" else 4
    W, bad, n_seq = ctx.memo(("merge_fold", max_len), lambda: _explore(ctx, max_len))
    report.covered(W.fn)
    report.covered(W.merge)
    report.count("merge_sequences_folded", n_seq)
    fn = W.fn
    texts = {
        "R-RUNS": "every caption joins exactly one run; a run is stored exactly when the next caption's times differ, "
                  "and once more after the loop",
        "R-FIELD-ROUTING": "merged caption carries the first caption's start, end and style; the merged list is stored "
                           "back under the language it was built from",
        "R-APPEND-ORDER": "all nodes of every merged caption are appended in order",
        "R-SEPARATOR": "a break separates every two merged captions",
        "R-LOOP": "every language is merged, each from its own captions",
        "R-IDEMPOTENT": "merging again changes nothing",
    }
    for rule, text in texts.items():
        if only is not None and rule not in only:
            continue
        where = W.merge if rule in ("R-APPEND-ORDER", "R-SEPARATOR") else fn
        name, text = (rename or {}).get(rule, (rule, text))
        report.check(not bad[rule], name, where, text,
                     {"sequences": n_seq, "folded_calls": W.n, "mismatches": bad[rule][:2]}, clause)
    return n_seq


def _explore(ctx, max_len):
    W = World(ctx)
    other = [("B", "x0", 0), ("B", "x1", 2), ("C", "x2", 1)]
    bad = {"R-RUNS": [], "R-FIELD-ROUTING": [], "R-APPEND-ORDER": [], "R-SEPARATOR": [], "R-LOOP": [], "R-IDEMPOTENT": []}
    n_seq = 0
    for k in range(0, max_len + 1):
        for spans in itertools.product("ABEDC", repeat=k):
            n_seq += 1
            # node pattern by position: text / text-break-text / text-break
            # (every third sequence: neighbouring captions carry the SAME text - a repeated line is still a line)
            seq = [(sp, (f"t{i // 2}" if n_seq % 3 == 0 else f"t{i}"), i % 3) for i, sp in enumerate(spans)]
            if n_seq % 5 == 2 and len(seq) >= 2:
                # one caption that displays nothing (a blank): still a caption - it joins, starts and ends runs like any other
                j = n_seq % len(seq)
                seq[j] = (seq[j][0], " ", 0)
            if n_seq % 7 == 3 and len(seq) >= 2:
                # italics opened in the first caption and closed in the last: the nodes are carried over as they are
                seq[0] = (seq[0][0], seq[0][1], 3)
                seq[-1] = (seq[-1][0], seq[-1][1], 4)
            W.with_layout = n_seq % 2 == 0          # every other sequence: all captions positioned
            langs = {"en-US": [W.caption(*c) for c in seq]}
            if n_seq % 4 == 1:
                langs["de"] = []                    # a language without captions between two that have some: it stays empty
            langs["fr"] = [W.caption(*c) for c in other]
            shared_objects = n_seq % 6 == 4 and len(seq) >= 2
            if shared_objects:
                # one track registered under two language codes: the SAME caption objects in both lists - what the merge makes of
                # the first language may not change what the second one gets
                langs["fr"] = list(langs["en-US"])
            case = {"timespans": [SPANS[s] for s in spans]}
            try:
                got = W.run(langs)
                first = {l: [_desc(c) for c in _items(v)] for l, v in got.items()}
                again = W.run({l: _items(v) for l, v in got.items()})
                second = {l: [_desc(c) for c in _items(v)] for l, v in again.items()}
            except FoldRaise as e:
                bad["R-RUNS"].append(dict(case, raises=e.exc_name or str(e)))
                continue
            except AnalysisError as e:
                raise AnalysisError(f"merge_concurrent_captions cannot be folded: {e}")
            want = {"en-US": _expected(seq), "fr": _expected(seq if shared_objects else other)}
            if "de" in langs:
                want["de"] = []
            if set(first) != set(want) or first.get("fr") != want["fr"] or first.get("de", []) != want.get("de", []):
                bad["R-LOOP"].append(dict(case, second_language=first.get("fr"), required=want["fr"],
                                          **({"language_without_captions": first.get("de")} if "de" in langs else {})))
                continue
            g, w = first["en-US"], want["en-US"]
            strip = lambda ns: [x for x in ns if x != "<br>"]   # noqa: E731
            if len(g) != len(w) or [len(strip(c[2])) for c in g] != [len(strip(c[2])) for c in w]:
                bad["R-RUNS"].append(dict(case, merged=[(c[0], c[1], c[2]) for c in g], required=[(c[0], c[1], c[2]) for c in w]))
            elif [(c[0], c[1], c[3]) for c in g] != [(c[0], c[1], c[3]) for c in w]:
                bad["R-FIELD-ROUTING"].append(dict(case, merged=[(c[0], c[1], c[3]) for c in g], required=[(c[0], c[1], c[3]) for c in w]))
            elif [strip(c[2]) for c in g] != [strip(c[2]) for c in w]:
                bad["R-APPEND-ORDER"].append(dict(case, merged=[c[2] for c in g], required=[c[2] for c in w]))
            elif [c[2] for c in g] != [c[2] for c in w]:
                bad["R-SEPARATOR"].append(dict(case, merged=[c[2] for c in g], required=[c[2] for c in w]))
            elif second != first:
                bad["R-IDEMPOTENT"].append(dict(case, once=first["en-US"], twice=second.get("en-US")))
    return W, bad, n_seq


# ---------------------------------------------------------------------------- adjust_caption_timing (C19 clause 1)
def retime(ctx, report, clause="1"):
    """`CaptionSet.adjust_caption_timing` folded on a grid of skews and offsets: every start and end t becomes
    t*skew+offset (the same float expression, so equality is exact), captions whose new start is negative are dropped -
    exactly those -, the others keep their order and their nodes, every language is adjusted"""
    F = Folder(ctx.index)
    F.object_classes = ("Caption", "CaptionList", "CaptionNode", "CaptionSet")
    fn = ctx.index.get_function(BASE, "CaptionSet.adjust_caption_timing")
    report.covered(fn)

    def ev(text, **local):
        return F.eval_in("pycaption.base", ast.parse(text, mode="eval").body, local)
    times = [(0, 2 * S), (2 * S, 4 * S), (3600 * S, 3602500000), (86399 * S, 86400 * S - 1)]
    # (a third language whose captions are NOT in ascending order of start: which ones are dropped depends on each one's own start)
    unordered = [(5 * S, 6 * S), (S, 2 * S), (7 * S, 8 * S), (2 * S, 3 * S)]
    skews = [1, 1.0, 1.1, 0.5, 4.0, 1.001, 1000 / 1001, 0.9995, 1.0004, 2]
    offsets = [0, 5 * S, -1, -3 * S, -3601 * S, 0.5, -7200 * S]
    bad_map, bad_drop, bad_keep = [], [], []
    n = 0
    for skew in skews:
        for off in offsets:
            n += 1
            langs = {}
            for lang in ("en-US", "fr", "xx"):
                caps = []
                for i, (a, b) in enumerate(times if lang == "en-US" else times[1:] if lang == "fr" else unordered):
                    node = ev("CaptionNode.create_text(t)", t=f"{lang}{i}")
                    caps.append(ev("Caption(a, b, [n])", a=a, b=b, n=node))
                langs[lang] = ev("CaptionList(c)", c=caps)
            cs = ev("CaptionSet(d)", d=langs)
            try:
                F.call_function(fn, [], {"offset": off, "rate_skew": skew}, self_value=cs)
            except FoldRaise as e:
                bad_map.append({"skew": skew, "offset": off, "raises": e.exc_name or str(e)})
                continue
            except AnalysisError as e:
                raise AnalysisError(f"adjust_caption_timing cannot be folded: {e}")
            for lang in ("en-US", "fr", "xx"):
                src_t = times if lang == "en-US" else times[1:] if lang == "fr" else unordered
                want = [(a * skew + off, b * skew + off, f"{lang}{i}") for i, (a, b) in enumerate(src_t)]
                keep = [w for w in want if w[0] >= 0]
                from .foldutil import captions_by_language
                lst = captions_by_language(cs, F, "adjust_caption_timing").get(lang, [])
                got = [(c.attrs["start"], c.attrs["end"], "".join(x.attrs.get("content") or "" for x in c.attrs["nodes"])) for c in lst]
                case = {"skew": skew, "offset": off, "language": lang}
                if [g[2] for g in got] != [k[2] for k in keep]:
                    (bad_drop if set(g[2] for g in got) != set(k[2] for k in keep) else bad_keep).append(
                        dict(case, kept=[g[2] for g in got], required=[k[2] for k in keep]))
                elif [(g[0], g[1]) for g in got] != [(k[0], k[1]) for k in keep]:
                    bad_map.append(dict(case, times=[(g[0], g[1]) for g in got][:3], required=[(k[0], k[1]) for k in keep][:3]))
    # one Caption object held twice - by two languages, or twice in one list (CaptionList * 2): it is still retimed once
    bad_alias = []
    for label in ("one caption object in two languages", "one caption object twice in one list"):
        for skew, off in ((1, S), (2, 0), (1.5, -S)):
            n += 1
            shared = ev("Caption(a, b, [n])", a=2 * S, b=4 * S, n=ev("CaptionNode.create_text('shared')"))
            other = ev("Caption(a, b, [n])", a=6 * S, b=8 * S, n=ev("CaptionNode.create_text('other')"))
            if label.endswith("languages"):
                cs = ev("CaptionSet({'en-US': CaptionList([s, o]), 'fr': CaptionList([s])})", s=shared, o=other)
            else:
                cs = ev("CaptionSet({'en-US': CaptionList([s, s, o])})", s=shared, o=other)
            try:
                F.call_function(fn, [], {"offset": off, "rate_skew": skew}, self_value=cs)
            except FoldRaise as e:
                bad_alias.append({"caption_set": label, "skew": skew, "offset": off, "raises": e.exc_name or str(e)})
                continue
            from .foldutil import captions_by_language
            want = (2 * S * skew + off, 4 * S * skew + off)
            for lang, lst in captions_by_language(cs, F, "adjust_caption_timing").items():
                got = [(c.attrs["start"], c.attrs["end"]) for c in lst if "shared" in "".join(x.attrs.get("content") or "" for x in c.attrs["nodes"])]
                if any(g != want for g in got) or not got:
                    bad_alias.append({"caption_set": label, "skew": skew, "offset": off, "language": lang, "times_of_the_shared_caption": got,
                                      "required": want})
    # a set that holds the default language code next to a language WITHOUT captions: each language is adjusted from its own
    # list - the empty one stays empty, the other one is adjusted once
    default_lang = F.value("pycaption.base", "DEFAULT_LANGUAGE_CODE")
    for first_lang, second_lang in ((default_lang, "xx"), ("xx", default_lang)):
        n += 1
        caps = [ev("Caption(a, b, [n])", a=2 * S, b=4 * S, n=ev("CaptionNode.create_text('one')")),
                ev("Caption(a, b, [n])", a=6 * S, b=8 * S, n=ev("CaptionNode.create_text('two')"))]
        cs = ev("CaptionSet({l1: CaptionList(c) if l1 == d else CaptionList([]), l2: CaptionList(c) if l2 == d else CaptionList([])})",
                l1=first_lang, l2=second_lang, d=default_lang, c=caps)
        try:
            F.call_function(fn, [], {"offset": S, "rate_skew": 1}, self_value=cs)
        except FoldRaise as e:
            bad_alias.append({"caption_set": f"languages {first_lang!r} (and an empty one)", "raises": e.exc_name or str(e)})
            continue
        from .foldutil import captions_by_language
        got = {l: [(c.attrs["start"], c.attrs["end"]) for c in lst] for l, lst in captions_by_language(cs, F, "adjust_caption_timing").items()}
        want = {first_lang: [(3 * S, 5 * S), (7 * S, 9 * S)] if first_lang == default_lang else [],
                second_lang: [(3 * S, 5 * S), (7 * S, 9 * S)] if second_lang == default_lang else []}
        if got != want:
            bad_alias.append({"caption_set": f"the default language {default_lang!r} with captions and a language 'xx' without", "offset": S,
                              "times_by_language": got, "required": want})
    report.check(not bad_alias, "R-GRID", fn, "a Caption object the set holds twice (in two languages, or twice in one list) is retimed "
                 "once: its start and end t become t*skew+offset; a language without captions stays empty next to the default language", {"mismatches": bad_alias[:2]}, clause)
    report.count("retime_configurations_folded", n)
    report.check(not bad_map, "R-GRID", fn, "every start and end t becomes t*skew+offset, in every language",
                 {"configurations": n, "skews": skews, "mismatches": bad_map[:2]}, clause)
    report.check(not bad_drop, "R-GRID", fn, "exactly the captions whose new start is negative are dropped",
                 {"configurations": n, "mismatches": bad_drop[:2]}, clause)
    report.check(not bad_keep, "R-GRID", fn, "surviving captions keep their order and their nodes",
                 {"configurations": n, "mismatches": bad_keep[:2]}, clause)
