"""C17 - SCC output is structurally valid and re-reads to the same words.

Decided clauses (DESIGN.md 4/C17):
 1 parity      every byte the writer can emit has odd parity (tables + literal words)
 2 tables      writer PAC bytes decode to (row, 0) by the reader's map and by the CEA-608 reference;
               CHARACTER_TO_CODE is the inverse of CHARACTERS, injective on non-empty characters
 3 wrap        every line goes through textwrap.fill(., 32)
 4 timecode    R-RADIX fold of _format_timestamp (x1000/1001, 3600/60/1 s, 30 frames); pre-roll = len(code)/5 + (number of
               literal command words) code words; clear-screen test compares with the pre-rolled start
 5 header      the writer emits the constant the reader's detect compares with
 6 word shape  len(code) % 5 automaton: every row starts word-aligned (abstract interpretation of the three helpers)
NOT decided: timing slack ("visible within three frames"), re-read equality.
"""
import ast
import re
from fractions import Fraction

from ..core.tree import AnalysisError
from ..core.constfold import Folder
from ..core.astutil import walk_no_nested, call_name, short, src, closure, resolve_local
from ..engines.tables import HEX2, HEX4, parity_ok, require_dict
from ..engines.symeval import SymEvaluator, Poly, eval_poly
from ..spec import cea608
from .c02 import flatten, render, describe

SCC = "pycaption/scc/__init__.py"
CONST = "pycaption.scc.constants"
CPATH = "pycaption/scc/constants.py"


def run(ctx, report):
    folder = ctx.memo("folder", lambda: Folder(ctx.index))
    report.section("parity", parity, ctx, report, folder)
    report.section("tables", tables, ctx, report, folder)
    report.structural_section("wrap (shape)", "R-E2E 'rows' / 'reread' on the folded SCC documents: every row <= 32 columns, broken at spaces only "
                              "(lines of exactly 32 and 33 characters, long words, a word longer than a row)", wrap, ctx, report)
    report.section("timecode", timecode, ctx, report, folder)
    report.structural_section("pre-roll (symbolic form)", "R-E2E 'visible' (every caption becomes visible within three "
                              "frames of its start, on generated caption sets incl. cues of five and more rows)", preroll, ctx, report, folder)
    report.section("header", header, ctx, report, folder)
    report.section("word shape", word_shape, ctx, report, folder)
    from . import scc_writer_fold
    report.section("end to end", scc_writer_fold.run, ctx, report, {
        "header": ("R-E2E", "1", "the Scenarist header, then time-coded lines of four-hex-digit words"),
        "parity": ("R-E2E", "1", "every byte has odd parity"),
        "rows": ("R-E2E", "2", "only rows 1-15 are addressed and no row holds more than 32 columns"),
        "reread": ("R-E2E", "3", "a reference line-21 decoder shows one caption per input caption with the same words in the "
                                 "same order (a word longer than 32 columns is split)"),
        "timecodes": ("R-E2E", "4", "time codes are non-negative and non-decreasing"),
        "visible": ("R-E2E", "4", "every caption becomes visible within three frames of its start (the first one whenever there is room to transmit it before its start)"),
        "stamp": ("R-E2E", "4", "_format_timestamp: the time code is the number of whole frames of non-drop-frame time "
                                "(every quarter frame of 70 s, and around the minute/hour carries)"),
    })
    report.not_decided += ["'visible within three frames' beyond the generated spacings",
                           "re-read by pycaption's own SCC reader (C05 decides the reader against the same reference)"]


def parity(ctx, report, folder):
    where = (CPATH, "<module>")
    chars = require_dict(folder.value(CONST, "CHARACTERS"), "CHARACTERS", 90)
    special = require_dict(folder.value(CONST, "SPECIAL_CHARS"), "SPECIAL_CHARS", 16)
    extended = require_dict(folder.value(CONST, "EXTENDED_CHARS"), "EXTENDED_CHARS", 60)
    hi = folder.value(CONST, "PAC_HIGH_BYTE_BY_ROW")
    lo = folder.value(CONST, "PAC_LOW_BYTE_BY_ROW_RESTRICTED")
    n = 0
    for name, keys in (("CHARACTERS", chars), ("SPECIAL_CHARS", special), ("EXTENDED_CHARS", extended)):
        bad = sorted(k for k in keys if not parity_ok(k))
        n += len(keys)
        report.check(not bad, "R-PARITY", where, f"every code of {name} has odd parity per byte",
                     {"codes": len(keys), "even_parity": bad}, "1")
    for name, lst in (("PAC_HIGH_BYTE_BY_ROW", hi), ("PAC_LOW_BYTE_BY_ROW_RESTRICTED", lo)):
        if not isinstance(lst, list) or len(lst) != 16:
            raise AnalysisError(f"{name} is not a 16-entry list")
        bad = [(i, b) for i, b in enumerate(lst[1:], 1) if not (HEX2.match(b) and parity_ok(b))]
        n += 15
        report.check(not bad, "R-PARITY", where, f"{name}[1..15] are odd-parity bytes", {"bad": bad}, "1")
    # literal words in the writer's methods
    cls = ctx.index.get_class(SCC, "SCCWriter")
    words = []
    for m in cls.methods.values():
        report.covered(m)
        for node in walk_no_nested(m.node):
            if isinstance(node, ast.Constant) and isinstance(node.value, str):
                for w in node.value.split():
                    if re.fullmatch(r"[0-9a-fA-F]{4}|[0-9a-fA-F]{2}", w):
                        words.append((m.qualname, w))
    if len(words) < 10:
        raise AnalysisError(f"only {len(words)} literal code words found in SCCWriter (floor 10)")
    bad = [(q, w) for q, w in words if not parity_ok(w.lower())]
    n += len(words)
    report.check(not bad, "R-PARITY", (SCC, "SCCWriter"), "every literal code word the writer emits has odd parity",
                 {"literal_words": sorted({w for _, w in words}), "even_parity": bad}, "1")
    report.count("bytes_checked", n)


def tables(ctx, report, folder):
    where = (CPATH, "<module>")
    chars = folder.value(CONST, "CHARACTERS")
    c2c = folder.value(CONST, "CHARACTER_TO_CODE")
    s2c = folder.value(CONST, "SPECIAL_OR_EXTENDED_CHAR_TO_CODE")
    special = folder.value(CONST, "SPECIAL_CHARS")
    extended = folder.value(CONST, "EXTENDED_CHARS")
    pacs = folder.value(CONST, "PAC_BYTES_TO_POSITIONING_MAP")
    hi = folder.value(CONST, "PAC_HIGH_BYTE_BY_ROW")
    lo = folder.value(CONST, "PAC_LOW_BYTE_BY_ROW_RESTRICTED")
    ref = cea608.pac_table()
    for r in range(1, 16):
        got = pacs.get(hi[r], {}).get(lo[r])
        want = ref.get(hi[r], {}).get(lo[r])
        report.check(got is not None and tuple(got) == (r, 0) and want == (r, 0), "R-TABLE-INVERSE", where,
                     f"writer PAC for row {r} ({hi[r]}{lo[r]}) addresses (row {r}, column 0)",
                     {"reader_map": got, "cea608_reference": want}, "2")
    bad = {}
    for ch, code in c2c.items():
        if chars.get(code) != ch:
            bad[ch] = code
    nonempty = [c for c in chars.values() if c != ""]
    dup = sorted({c for c in nonempty if nonempty.count(c) > 1})
    missing = sorted(c for c in nonempty if c not in c2c)
    report.check(not bad and not dup and not missing, "R-TABLE-INVERSE", where,
                 "CHARACTER_TO_CODE is the inverse of CHARACTERS (injective on non-empty characters)",
                 {"wrong": bad, "characters_with_two_codes": dup, "unencodable": missing, "entries": len(c2c)}, "2")
    bad = {ch: code for ch, code in s2c.items() if special.get(code, extended.get(code)) != ch}
    report.check(not bad, "R-TABLE-INVERSE", where, "SPECIAL_OR_EXTENDED_CHAR_TO_CODE inverts the special/extended tables",
                 {"wrong": bad, "entries": len(s2c)}, "2")
    # fallback code is a real special character
    pc = ctx.index.get_function(SCC, "SCCWriter._print_character")
    fall = [n.value.value for n in walk_no_nested(pc.node) if isinstance(n, ast.Assign) and isinstance(n.value, ast.Constant)
            and isinstance(n.value.value, str)]
    ok = len(fall) == 1 and fall[0] in special
    report.check(ok, "R-TABLE-REF", pc, "the 'unknown character' fallback is a special-character code", fall, "2")
    # rows: row index = row + 16 - len(lines)
    tc = ctx.index.get_function(SCC, "SCCWriter._text_to_code", inline=True, keep=("_print_character", "_maybe_align", "_maybe_space", "_layout_line"))
    report.covered(tc)
    # folded: k lines of text must be addressed to rows 16-k .. 15 (two identical PAC words per row)
    from ..core.constfold import Stub as _Stub
    wcls_ = ctx.index.get_class(SCC, "SCCWriter")
    hi = folder.value("pycaption.scc.constants", "PAC_HIGH_BYTE_BY_ROW")
    lo = folder.value("pycaption.scc.constants", "PAC_LOW_BYTE_BY_ROW_RESTRICTED")
    adj = []
    ok = True
    for k in (1, 2, 3, 4):
        text = "\n".join("AB" for _ in range(k))
        cap = _Stub("caption", {}, {"get_text_nodes": lambda text=text: [text]})
        try:
            code = folder.call_function(tc, [cap], self_value=_Stub("writer", {}, cls=wcls_))
        except AnalysisError as e:
            raise AnalysisError(f"_text_to_code cannot be folded: {e}")
        words = code.split()
        rows = []
        for r_ in range(1, 16):
            w_ = f"{hi[r_]}{lo[r_]}"
            if w_ in words:
                rows.append(r_)
        adj.append({"lines": k, "rows_addressed": rows})
        if rows != list(range(16 - k, 16)):
            ok = False
    report.check(ok, "R-AFFINE", tc, "the last line is written on row 15 (row = index + 16 - number of lines)",
                 [short(a) for a in adj], "2")
    uses = [src(n) for n in walk_no_nested(tc.node) if isinstance(n, ast.Subscript)
            and src(n.value) in ("PAC_HIGH_BYTE_BY_ROW", "PAC_LOW_BYTE_BY_ROW_RESTRICTED")]
    # (spelling only: the fold above decides the clause - a word whose two bytes belong to different rows is not the address of
    # any expected row)
    idx_ = {u.split("[", 1)[0]: {v.split("[", 1)[1] for v in uses if v.split("[", 1)[0] == u.split("[", 1)[0]} for u in uses}
    if set(idx_) == {"PAC_HIGH_BYTE_BY_ROW", "PAC_LOW_BYTE_BY_ROW_RESTRICTED"} and all(len(v) == 1 for v in idx_.values()) \
            and idx_["PAC_HIGH_BYTE_BY_ROW"] == idx_["PAC_LOW_BYTE_BY_ROW_RESTRICTED"]:
        report.ok("R-FIELD-ROUTING", tc, "high and low PAC bytes are taken for the same row", sorted(set(uses)), "2")
    else:
        report.info("R-STRUCTURE", tc, "_text_to_code: the two PAC table look-ups are not spelled with one index expression "
                    "(spelling not recognised)", {"uses": uses, "clause_decided_by": "R-AFFINE: the rows addressed, folded for 1-4 lines"}, None)


def wrap(ctx, report):
    fn = ctx.index.get_function(SCC, "SCCWriter._layout_line")
    report.covered(fn)
    fills = [c for c in walk_no_nested(fn.node) if isinstance(c, ast.Call) and call_name(c) == "textwrap.fill"]
    if len(fills) != 1:
        raise AnalysisError("_layout_line: textwrap.fill call not found")
    f = fills[0]
    width = None
    if len(f.args) > 1 and isinstance(f.args[1], ast.Constant):
        width = f.args[1].value
    for k in f.keywords:
        if k.arg == "width" and isinstance(k.value, ast.Constant):
            width = k.value.value
    other_kw = [k.arg for k in f.keywords if k.arg != "width"]
    # (what the options do to the rows - hyphens, long words - is decided on the folded documents; here: the width)
    report.recognise(width == cea608.SCREEN_COLUMNS and set(other_kw) <= {"break_on_hyphens"}, "R-TABLE-REF", (fn, f),
                     "rows are wrapped at 32 columns", {"width": width, "other_options": other_kw}, "3")
    # unconditional: the fill call is the element of a comprehension without condition, or a bypass `len(x) <= 32`
    comp = [n for n in walk_no_nested(fn.node) if isinstance(n, ast.ListComp)]
    detail = {}
    ok = False
    if len(comp) == 1:
        c = comp[0]
        detail["comprehension"] = short(c)
        if c.elt is f and not any(g.ifs for g in c.generators):
            ok = True
        elif isinstance(c.elt, ast.IfExp) and not any(g.ifs for g in c.generators):
            t = c.elt.test
            var = src(c.generators[0].target)
            m = re.fullmatch(rf"len\({re.escape(var)}\) (<=|<) (\d+)", src(t))
            if m and c.elt.orelse is f and src(c.elt.body) == var:
                bound = int(m.group(2)) - (1 if m.group(1) == "<" else 0)
                ok = bound <= cea608.SCREEN_COLUMNS
                detail["bypass_for_lines_up_to"] = bound
            else:
                raise AnalysisError(f"_layout_line: conditional wrapping not recognised: {src(c.elt)}")
    else:
        raise AnalysisError("_layout_line: wrapping comprehension not found")
    report.check(ok, "R-MUST-PASS", fn, "every line passes through the 32-column wrap", detail, "3")


def timecode(ctx, report, folder):
    fn = ctx.index.get_function(SCC, "SCCWriter._format_timestamp")
    report.covered(fn)
    ev = SymEvaluator(ctx.index, folder)
    outs = ev.run(fn, {"microseconds": Poly.atom("US")})
    if len(outs) != 1:
        raise AnalysisError("_format_timestamp: expected a single path")
    toks = flatten(outs[0].value)
    import math
    bad = []
    n = 0
    samples = set()
    for h in (0, 1, 9, 10, 23):
        for m in (0, 1, 59):
            for s in (0, 1, 59):
                for f in (0, 1, 15, 29):
                    base = Fraction((h * 3600 + m * 60 + s) * 30 + f, 30) * Fraction(1001, 1000) * 10**6
                    for d in (0, 1, 17, 33366):
                        samples.add(math.ceil(base) + d)
    for us in sorted(samples):
        T = Fraction(us, 10**6) * Fraction(1000, 1001)
        hh = math.floor(T / 3600)
        r = T - hh * 3600
        mm = math.floor(r / 60)
        r -= mm * 60
        ss = math.floor(r)
        ff = math.floor((r - ss) * 30)
        want = f"{hh:02}:{mm:02}:{ss:02}:{ff:02}"
        got = render(toks, {"US": us}, {})
        n += 1
        if got != want:
            bad.append({"microseconds": us, "printed": got, "required": want})
    report.check(not bad, "R-RADIX", fn, "hh:mm:ss:ff non-drop-frame timecode (x1000/1001, 30 frames per second)",
                 {"template": describe(toks)[:300], "evaluations": n, "first_mismatches": bad[:3],
                  "domain": "720 timecodes (hours 0-23, minute/second/frame boundaries) x 4 sub-frame offsets"}, "4")
    report.count("timecode_evaluations", n)


def preroll(ctx, report, folder):
    fn = ctx.index.get_function(SCC, "SCCWriter.write")
    report.covered(fn)
    # literal words written around each payload in PASS 3
    # the statement list (in write() or a helper it calls) that emits the line starting with the
    # caption's start timecode: its unconditional statements carry the literal command words
    def blocks(body):
        yield body
        for st in body:
            for name in ("body", "orelse", "finalbody"):
                b_ = getattr(st, name, None)
                if isinstance(b_, list) and b_ and isinstance(b_[0], ast.stmt) \
                        and not isinstance(st, (ast.FunctionDef, ast.ClassDef)):
                    yield from blocks(b_)

    def simple(st):
        return isinstance(st, (ast.Assign, ast.AugAssign, ast.Return, ast.Expr))
    cands = []
    for f2 in closure(ctx.index, fn):
        for blk in blocks(f2.node.body):
            if any(simple(st) and "_format_timestamp" in src(st) for st in blk):
                cands.append((f2, blk))
    if not cands or len({f2.key for f2, _ in cands}) != 1:
        raise AnalysisError(f"SCCWriter.write: emission of the timecode line not recognised ({len(cands)} candidates)")
    f2, blk = cands[0]
    report.covered(f2)
    per_caption = []
    for st in blk:
        if simple(st):
            per_caption += [c.value for c in ast.walk(st) if isinstance(c, ast.Constant) and isinstance(c.value, str)]
    lit_words = sum(len([w for w in s.split() if re.fullmatch(r"[0-9a-f]{4}", w)]) for s in per_caption)
    assigns = {}
    for n in walk_no_nested(fn.node):
        if isinstance(n, ast.Assign) and len(n.targets) == 1 and isinstance(n.targets[0], ast.Name):
            assigns.setdefault(n.targets[0].id, []).append(n.value)
    cs = assigns.get("code_start", [])
    if len(cs) != 1:
        raise AnalysisError("SCCWriter.write: pre-rolled start (code_start) not found")
    resolved = src(resolve_local(fn, cs[0], index=ctx.index))
    m = re.fullmatch(r"start - \(len\(code\) / 5 \+ (\d+)\) \* MICROSECONDS_PER_CODEWORD", resolved)
    if not m:
        raise AnalysisError(f"SCCWriter.write: pre-roll expression not recognised: {resolved}")
    report.check(int(m.group(1)) == lit_words, "R-TABLE-SIBLING", (fn, cs[0]),
                 "pre-roll counts the payload words plus the literal command words written around them",
                 {"constant": int(m.group(1)), "literal_command_words_per_caption": lit_words,
                  "literals": per_caption}, "4")
    report.ok("R-AFFINE", fn, "transmission starts one frame per code word before the caption's start",
              {"code_start": resolved}, "4")
    tests = [n for n in walk_no_nested(fn.node) if isinstance(n, ast.If) and "MICROSECONDS_PER_CODEWORD" in src(n.test)]
    if len(tests) != 1:
        raise AnalysisError("SCCWriter.write: clear-screen test not found")
    t = tests[0].test
    ok = isinstance(t, ast.Compare) and isinstance(t.ops[0], ast.GtE) and src(t.comparators[0]) == "code_start" \
        and re.fullmatch(r"previous_end \+ (\d+) \* MICROSECONDS_PER_CODEWORD", src(t.left)) is not None
    report.check(ok, "R-FIELD-ROUTING", (fn, tests[0]),
                 "the previous clear-screen is dropped when it would fall after the PRE-ROLLED start of the next caption",
                 {"test": src(t), "required": "previous_end + k * frame >= code_start"}, "4")
    # the emitted line uses the pre-rolled start
    st = [n for n in walk_no_nested(fn.node) if isinstance(n, ast.Assign) and isinstance(n.targets[0], ast.Subscript)
          and src(n.targets[0]) == "codes[index]"]
    ok = len(st) >= 1 and all(src(x.value) == "(code, code_start, end)" for x in st)
    report.recognise(ok, "R-FIELD-ROUTING", fn, "each caption is transmitted from its pre-rolled start", [short(s) for s in st], "4")
    # a pre-rolled start is never negative: the store for the first caption (nothing precedes it) runs only when its
    # pre-rolled start does not lie before the beginning of the file
    from ..core.astutil import enclosing_conjuncts
    first = [x for x in st if any(d.replace(" ", "") == "index==0" for d in (enclosing_conjuncts(fn, x) or []))]
    for x in first:
        dom = [d.replace(" ", "") for d in (enclosing_conjuncts(fn, x) or [])]
        report.check(any(re.fullmatch(r".*start.*>=?0|0<=?.*start.*", d) for d in dom), "R-GUARD", (fn, x),
                     "the first caption is pre-rolled only when that does not take it before the beginning of the file",
                     {"store_runs_under": dom, "why": "a negative start makes the time-code formatter print a malformed stamp"}, "4")


def header(ctx, report, folder):
    wr = ctx.index.get_function(SCC, "SCCWriter.write")
    det = ctx.index.get_function(SCC, "SCCReader.detect")
    report.covered(det)
    hv = folder.value(CONST, "HEADER")
    w_uses = [n for n in walk_no_nested(wr.node) if isinstance(n, ast.Name) and n.id == "HEADER"]
    d_uses = [n for n in walk_no_nested(det.node) if isinstance(n, ast.Name) and n.id == "HEADER"]
    first = [n for n in walk_no_nested(wr.node) if isinstance(n, ast.Assign) and src(n.targets[0]) == "output"]
    ok = bool(w_uses) and bool(d_uses) and first and src(first[0].value).startswith("HEADER +")
    report.check(ok and hv == "Scenarist_SCC V1.0", "R-TABLE-SIBLING", wr,
                 "the output starts with the HEADER constant the reader's detect compares with",
                 {"HEADER": hv, "writer_uses": len(w_uses), "detect_uses": len(d_uses)}, "5")


def word_shape(ctx, report, folder):
    """len(code) % 5 abstract interpretation: 0 = word aligned ("hhhh " consumed), 2 = half word, 4 = full word
    without its separating space.  Each helper is folded over the three states with the constant folder (pure
    string functions on a representative string of that length class)."""
    al = ctx.index.get_function(SCC, "SCCWriter._maybe_align")
    sp = ctx.index.get_function(SCC, "SCCWriter._maybe_space")
    for f in (al, sp):
        report.covered(f)
    reps = {0: "", 2: "ab", 4: "abcd", 1: "a", 3: "abc"}
    table = {}
    for name, f in (("align", al), ("space", sp)):
        for st, rep in reps.items():
            try:
                out = folder.call_function(f, [rep])
            except AnalysisError as e:
                raise AnalysisError(f"{f.qualname}: cannot fold: {e}")
            if not isinstance(out, str) or not out.startswith(rep):
                raise AnalysisError(f"{f.qualname}: does not extend its argument")
            table[(name, st)] = (len(out) % 5, out[len(rep):])
    want_align = {0: (0, ""), 2: (0, "80 "), 4: (4, "")}
    want_space = {0: (0, ""), 2: (2, ""), 4: (0, " ")}
    ok_a = all(table[("align", s)] == w for s, w in want_align.items())
    ok_s = all(table[("space", s)] == w for s, w in want_space.items())
    report.check(ok_a, "R-AUTOMATON", al, "_maybe_align pads a half word with the filler byte and nothing else",
                 {str(s): table[("align", s)] for s in (0, 2, 4)}, "6")
    report.check(ok_s, "R-AUTOMATON", sp, "_maybe_space separates a completed word and nothing else",
                 {str(s): table[("space", s)] for s in (0, 2, 4)}, "6")
    if not (ok_a and ok_s):
        return
    # _print_character: 2-hex code appended in place, 4-hex code after align; each followed by _maybe_space in
    # _text_to_code; rows start with two "hhll " PACs and end with _maybe_align
    pc = ctx.index.get_function(SCC, "SCCWriter._print_character")
    # folded on (alignment state) x (one-byte character, two-byte character, unknown character)
    from ..core.constfold import Stub
    wcls = ctx.index.get_class(SCC, "SCCWriter")
    c2c = folder.value("pycaption.scc.constants", "CHARACTER_TO_CODE")
    s2c = folder.value("pycaption.scc.constants", "SPECIAL_OR_EXTENDED_CHAR_TO_CODE")
    one = next(ch for ch, cd in sorted(c2c.items()) if len(cd) == 2 and ch.isalpha())
    two = next(ch for ch, cd in sorted(s2c.items()) if len(cd) == 4 and ch not in c2c)
    unknown = "\u2603"
    if unknown in c2c or unknown in s2c:
        raise AnalysisError("_print_character: probe character is encodable")
    rets, bad = {}, []
    for prefix in ("", "ab", "abcd "):
        for label, ch in (("one-byte", one), ("two-byte", two), ("unknown", unknown)):
            try:
                out = folder.call_function(pc, [prefix, ch], self_value=Stub("writer", {}, cls=wcls))
            except AnalysisError as e:
                raise AnalysisError(f"_print_character cannot be folded: {e}")
            rets[f"{prefix!r}+{label}"] = out
            if not isinstance(out, str) or not out.startswith(prefix):
                bad.append((prefix, label, out))
                continue
            added = out[len(prefix):]
            if label == "one-byte":
                good = added == c2c[one]
            else:
                pad = "80 " if len(prefix) % 5 == 2 else ""
                good = re.fullmatch(re.escape(pad) + r"[0-9a-f]{4}", added) is not None and \
                    (label == "unknown" or added.endswith(s2c[two]))
            if not good:
                bad.append((prefix, label, out))
    ok = not bad
    report.check(ok, "R-AUTOMATON", pc, "a one-byte code is appended in place, a two-byte code starts on a word boundary",
                 {"folded": rets, "wrong": bad[:3]}, "6")
    tc = ctx.index.get_function(SCC, "SCCWriter._text_to_code", inline=True, keep=("_print_character", "_maybe_align", "_maybe_space", "_layout_line"))
    encode_fold(ctx, report, folder, tc, c2c, s2c)


def encode_fold(ctx, report, folder, tc, c2c, s2c):
    """SCCWriter._text_to_code folded on every encodable character in both alignment states (the
    character first on its row, and after one one-byte character), on one- and two-row captions: the
    code consists of whole 4-hex-digit words, every row starts with its doubled address word, and
    decoding the words with the reader's own tables gives the text back."""
    from ..core.constfold import Stub
    wcls = ctx.index.get_class(SCC, "SCCWriter")
    chars = folder.value("pycaption.scc.constants", "CHARACTERS")
    special = folder.value("pycaption.scc.constants", "SPECIAL_CHARS")
    extended = folder.value("pycaption.scc.constants", "EXTENDED_CHARS")
    hi = folder.value("pycaption.scc.constants", "PAC_HIGH_BYTE_BY_ROW")
    lo = folder.value("pycaption.scc.constants", "PAC_LOW_BYTE_BY_ROW_RESTRICTED")
    pac_row = {f"{hi[r]}{lo[r]}": r for r in range(1, 16)}
    one = next(ch for ch, cd in sorted(c2c.items()) if len(cd) == 2 and ch.isalpha())
    alphabet = sorted(set(c2c) | set(s2c))
    alphabet = [ch for ch in alphabet if ch and not ch.isspace()]

    def decode(code):
        if re.fullmatch(r"([0-9a-f]{4} )*", code) is None:
            return None, "not a sequence of whole 4-hex-digit words"
        rows, cur = [], None
        words = code.split()
        i = 0
        while i < len(words):
            w = words[i]
            if w in pac_row:
                if i + 1 >= len(words) or words[i + 1] != w:
                    return None, f"address word {w} is not doubled"
                cur = [pac_row[w], ""]
                rows.append(cur)
                i += 2
                continue
            if cur is None:
                return None, f"word {w} before any address"
            if w in special:
                cur[1] += special[w]
            elif w in extended:
                cur[1] += extended[w]
            else:
                for byte in (w[:2], w[2:]):
                    if byte not in chars:
                        return None, f"byte {byte} of word {w} is not a character code"
                    cur[1] += chars[byte]
            i += 1
        return rows, None
    bad, n = [], 0
    for ch in alphabet:
        for lines in ([ch], [one + ch], [ch + one, one + ch + ch]):
            n += 1
            text = "\n".join(lines)
            cap = Stub("caption", {}, {"get_text_nodes": lambda text=text: [text]})
            try:
                code = folder.call_function(tc, [cap], self_value=Stub("writer", {}, cls=wcls))
            except AnalysisError as e:
                raise AnalysisError(f"_text_to_code cannot be folded on {text!r}: {e}")
            rows, why = decode(code)
            if why is None:
                want_rows = list(range(16 - len(lines), 16))
                if [r for r, _ in rows] != want_rows:
                    why = f"rows addressed {[r for r, _ in rows]} instead of {want_rows}"
                elif [t for _, t in rows] != lines:
                    why = f"decodes to {[t for _, t in rows]}"
            if why:
                bad.append({"text": lines, "code": code[:60], "problem": why})
    ext_written_bare = sorted(ch for ch in alphabet if ch in s2c and s2c[ch] in extended)
    if ext_written_bare:
        report.info("R-ENCODE-FOLD", tc, "outside C17's scope (basic character set only): extended characters are written "
                    "without the stand-in character that a CEA-608 decoder - and SCCReader - erases before them",
                    {"extended_characters": len(ext_written_bare),
                     "observed_on_the_real_code": "'xAÁBy' is written as f8c1 9220 c279 and read back as 'xÁBy'"}, "6")
    report.check(not bad, "R-ENCODE-FOLD", tc,
                 "every encodable character, in both alignment states, is written as whole words on the right rows and decodes "
                 "back with the reader's tables", {"texts_folded": n, "characters": len(alphabet), "offending": bad[:3]}, "6")


def preroll(ctx, report, folder):
    fn = ctx.index.get_function(SCC, "SCCWriter.write")
    report.covered(fn)
    # literal words written around each payload in PASS 3
    # the statement list (in write() or a helper it calls) that emits the line starting with the
    # caption's start timecode: its unconditional statements carry the literal command words
    def blocks(body):
        yield body
        for st in body:
            for name in ("body", "orelse", "finalbody"):
                b_ = getattr(st, name, None)
                if isinstance(b_, list) and b_ and isinstance(b_[0], ast.stmt) \
                        and not isinstance(st, (ast.FunctionDef, ast.ClassDef)):
                    yield from blocks(b_)

    def simple(st):
        return isinstance(st, (ast.Assign, ast.AugAssign, ast.Return, ast.Expr))
    cands = []
    for f2 in closure(ctx.index, fn):
        for blk in blocks(f2.node.body):
            if any(simple(st) and "_format_timestamp" in src(st) for st in blk):
                cands.append((f2, blk))
    if not cands or len({f2.key for f2, _ in cands}) != 1:
        raise AnalysisError(f"SCCWriter.write: emission of the timecode line not recognised ({len(cands)} candidates)")
    f2, blk = cands[0]
    report.covered(f2)
    per_caption = []
    for st in blk:
        if simple(st):
            per_caption += [c.value for c in ast.walk(st) if isinstance(c, ast.Constant) and isinstance(c.value, str)]
    lit_words = sum(len([w for w in s.split() if re.fullmatch(r"[0-9a-f]{4}", w)]) for s in per_caption)
    assigns = {}
    for n in walk_no_nested(fn.node):
        if isinstance(n, ast.Assign) and len(n.targets) == 1 and isinstance(n.targets[0], ast.Name):
            assigns.setdefault(n.targets[0].id, []).append(n.value)
    cs = assigns.get("code_start", [])
    if len(cs) != 1:
        raise AnalysisError("SCCWriter.write: pre-rolled start (code_start) not found")
    resolved = src(resolve_local(fn, cs[0], index=ctx.index))
    m = re.fullmatch(r"start - \(len\(code\) / 5 \+ (\d+)\) \* MICROSECONDS_PER_CODEWORD", resolved)
    if not m:
        raise AnalysisError(f"SCCWriter.write: pre-roll expression not recognised: {resolved}")
    report.check(int(m.group(1)) == lit_words, "R-TABLE-SIBLING", (fn, cs[0]),
                 "pre-roll counts the payload words plus the literal command words written around them",
                 {"constant": int(m.group(1)), "literal_command_words_per_caption": lit_words,
                  "literals": per_caption}, "4")
    report.ok("R-AFFINE", fn, "transmission starts one frame per code word before the caption's start",
              {"code_start": resolved}, "4")
    tests = [n for n in walk_no_nested(fn.node) if isinstance(n, ast.If) and "MICROSECONDS_PER_CODEWORD" in src(n.test)]
    if len(tests) != 1:
        raise AnalysisError("SCCWriter.write: clear-screen test not found")
    t = tests[0].test
    ok = isinstance(t, ast.Compare) and isinstance(t.ops[0], ast.GtE) and src(t.comparators[0]) == "code_start" \
        and re.fullmatch(r"previous_end \+ (\d+) \* MICROSECONDS_PER_CODEWORD", src(t.left)) is not None
    report.check(ok, "R-FIELD-ROUTING", (fn, tests[0]),
                 "the previous clear-screen is dropped when it would fall after the PRE-ROLLED start of the next caption",
                 {"test": src(t), "required": "previous_end + k * frame >= code_start"}, "4")
    # the emitted line uses the pre-rolled start
    st = [n for n in walk_no_nested(fn.node) if isinstance(n, ast.Assign) and isinstance(n.targets[0], ast.Subscript)
          and src(n.targets[0]) == "codes[index]"]
    ok = len(st) >= 1 and all(src(x.value) == "(code, code_start, end)" for x in st)
    report.recognise(ok, "R-FIELD-ROUTING", fn, "each caption is transmitted from its pre-rolled start", [short(s) for s in st], "4")
    # a pre-rolled start is never negative: the store for the first caption (nothing precedes it) runs only when its
    # pre-rolled start does not lie before the beginning of the file
    from ..core.astutil import enclosing_conjuncts
    first = [x for x in st if any(d.replace(" ", "") == "index==0" for d in (enclosing_conjuncts(fn, x) or []))]
    for x in first:
        dom = [d.replace(" ", "") for d in (enclosing_conjuncts(fn, x) or [])]
        report.check(any(re.fullmatch(r".*start.*>=?0|0<=?.*start.*", d) for d in dom), "R-GUARD", (fn, x),
                     "the first caption is pre-rolled only when that does not take it before the beginning of the file",
                     {"store_runs_under": dom, "why": "a negative start makes the time-code formatter print a malformed stamp"}, "4")


def header(ctx, report, folder):
    """the writer's output, folded, begins with the line the reader's own detect() - folded on that output - looks for"""
    from . import scc_writer_fold as WF
    from ..core.constfold import Stub, FoldRaise
    wr = ctx.index.get_function(SCC, "SCCWriter.write")
    det = ctx.index.get_function(SCC, "SCCReader.detect")
    report.covered(det)
    hv = folder.value(CONST, "HEADER")
    W = WF.World(ctx)
    bad = []
    for caps in ([(2000000, 4000000, ["hello"])], [(5000000, 6000000, ["one", "two"]), (8000000, 9000000, ["next"])]):
        try:
            doc = W.write(caps)
            accepted = W.F.call_function(det, [doc], {}, self_value=Stub("reader", {}, cls=det.cls))
        except FoldRaise as e:
            bad.append({"captions": len(caps), "raises": e.exc_name})
            continue
        except AnalysisError as e:
            raise AnalysisError(f"SCCWriter.write / SCCReader.detect cannot be folded back to back: {e}")
        first_line = doc.split("\n", 1)[0] if isinstance(doc, str) else None
        if first_line != "Scenarist_SCC V1.0" or not accepted:
            bad.append({"captions": len(caps), "first_line": first_line, "detect_accepts": bool(accepted)})
    report.check(not bad and hv == "Scenarist_SCC V1.0", "R-TABLE-SIBLING", wr,
                 "the output starts with the Scenarist header line, and the reader's detect accepts it",
                 {"HEADER": hv, "mismatches": bad[:2]}, "5")


def word_shape(ctx, report, folder):
    """len(code) % 5 abstract interpretation: 0 = word aligned ("hhhh " consumed), 2 = half word, 4 = full word
    without its separating space.  Each helper is folded over the three states with the constant folder (pure
    string functions on a representative string of that length class)."""
    al = ctx.index.get_function(SCC, "SCCWriter._maybe_align")
    sp = ctx.index.get_function(SCC, "SCCWriter._maybe_space")
    for f in (al, sp):
        report.covered(f)
    reps = {0: "", 2: "ab", 4: "abcd", 1: "a", 3: "abc"}
    table = {}
    for name, f in (("align", al), ("space", sp)):
        for st, rep in reps.items():
            try:
                out = folder.call_function(f, [rep])
            except AnalysisError as e:
                raise AnalysisError(f"{f.qualname}: cannot fold: {e}")
            if not isinstance(out, str) or not out.startswith(rep):
                raise AnalysisError(f"{f.qualname}: does not extend its argument")
            table[(name, st)] = (len(out) % 5, out[len(rep):])
    want_align = {0: (0, ""), 2: (0, "80 "), 4: (4, "")}
    want_space = {0: (0, ""), 2: (2, ""), 4: (0, " ")}
    ok_a = all(table[("align", s)] == w for s, w in want_align.items())
    ok_s = all(table[("space", s)] == w for s, w in want_space.items())
    report.check(ok_a, "R-AUTOMATON", al, "_maybe_align pads a half word with the filler byte and nothing else",
                 {str(s): table[("align", s)] for s in (0, 2, 4)}, "6")
    report.check(ok_s, "R-AUTOMATON", sp, "_maybe_space separates a completed word and nothing else",
                 {str(s): table[("space", s)] for s in (0, 2, 4)}, "6")
    if not (ok_a and ok_s):
        return
    # _print_character: 2-hex code appended in place, 4-hex code after align; each followed by _maybe_space in
    # _text_to_code; rows start with two "hhll " PACs and end with _maybe_align
    pc = ctx.index.get_function(SCC, "SCCWriter._print_character")
    # folded on (alignment state) x (one-byte character, two-byte character, unknown character)
    from ..core.constfold import Stub
    wcls = ctx.index.get_class(SCC, "SCCWriter")
    c2c = folder.value("pycaption.scc.constants", "CHARACTER_TO_CODE")
    s2c = folder.value("pycaption.scc.constants", "SPECIAL_OR_EXTENDED_CHAR_TO_CODE")
    one = next(ch for ch, cd in sorted(c2c.items()) if len(cd) == 2 and ch.isalpha())
    two = next(ch for ch, cd in sorted(s2c.items()) if len(cd) == 4 and ch not in c2c)
    unknown = "\u2603"
    if unknown in c2c or unknown in s2c:
        raise AnalysisError("_print_character: probe character is encodable")
    rets, bad = {}, []
    for prefix in ("", "ab", "abcd "):
        for label, ch in (("one-byte", one), ("two-byte", two), ("unknown", unknown)):
            try:
                out = folder.call_function(pc, [prefix, ch], self_value=Stub("writer", {}, cls=wcls))
            except AnalysisError as e:
                raise AnalysisError(f"_print_character cannot be folded: {e}")
            rets[f"{prefix!r}+{label}"] = out
            if not isinstance(out, str) or not out.startswith(prefix):
                bad.append((prefix, label, out))
                continue
            added = out[len(prefix):]
            if label == "one-byte":
                good = added == c2c[one]
            else:
                pad = "80 " if len(prefix) % 5 == 2 else ""
                good = re.fullmatch(re.escape(pad) + r"[0-9a-f]{4}", added) is not None and \
                    (label == "unknown" or added.endswith(s2c[two]))
            if not good:
                bad.append((prefix, label, out))
    ok = not bad
    report.check(ok, "R-AUTOMATON", pc, "a one-byte code is appended in place, a two-byte code starts on a word boundary",
                 {"folded": rets, "wrong": bad[:3]}, "6")
    tc = ctx.index.get_function(SCC, "SCCWriter._text_to_code", inline=True, keep=("_print_character", "_maybe_align", "_maybe_space", "_layout_line"))
    # automaton closure: states reachable at the top of a row
    def step_char(st, nbytes):
        if nbytes == 1:
            st = (st + 2) % 5
        else:
            st = table[("align", st)][0]
            st = (st + 4) % 5
        return table[("space", st)][0]
    states = {0}
    frontier = {0}
    while frontier:
        nxt = set()
        for s in frontier:
            for nb in (1, 2):
                t = step_char(s, nb)
                if t not in states:
                    nxt.add(t)
        states |= nxt
        frontier = nxt
    end_states = {table[("align", s)][0] for s in states}
    seq = [src(n) for n in walk_no_nested(tc.node) if isinstance(n, ast.Call) and (call_name(n) or "").startswith("self._")]
    in_char_loop = [n for n in walk_no_nested(tc.node) if isinstance(n, ast.For) and src(n.iter) == "line"]
    calls_in = [call_name(c) for l in in_char_loop for c in walk_no_nested(l) if isinstance(c, ast.Call) and call_name(c)]
    ok_loop = calls_in[:2] == ["self._print_character", "self._maybe_space"] or \
        [c for c in calls_in if c.startswith("self._")] == ["self._print_character", "self._maybe_space"]
    after = []
    for l in [n for n in walk_no_nested(tc.node) if isinstance(n, ast.For) and "enumerate" in src(n.iter)]:
        last = l.body[-1]
        after.append(src(last))
    ok_end = after == ["code = self._maybe_align(code)"]
    # (how _text_to_code strings the three steps together - per character: print, space; per row: align - is decided on
    #  whole documents by the end-to-end fold: every line is a sequence of four-hex-digit words)
    report.check(states == {0, 2} and end_states == {0}, "R-AUTOMATON", tc,
                 "len(code) % 5 is 0 at the start of every row: only whole 4-hex-digit words are emitted",
                 {"states_inside_a_row": sorted(states), "states_at_row_end": sorted(end_states),
                  "per_character_calls_seen": calls_in, "row_end_seen": after, "wiring_recognised": bool(ok_loop and ok_end)}, "6")
