"""C18 clauses 3-5: size grammar, print <= parse, padding shorthand."""
import ast
import re

from ..core.tree import AnalysisError
from ..core.constfold import Folder, EnumClass
from ..core.astutil import walk_no_nested, call_name, short, src
from ..engines import regexlang as R
from ..engines.regexuse import regex_uses
from ..spec import geometry_spec as G

GEOM = "pycaption/geometry.py"


def run(ctx, report):
    folder = ctx.memo("folder", lambda: Folder(ctx.index))
    idx = ctx.index
    # clause 3 ------------------------------------------------------------
    units = folder.value("pycaption.geometry", "UnitEnum")
    if not isinstance(units, EnumClass):
        raise AnalysisError("UnitEnum does not fold to an Enum class")
    got_units = sorted(m.value for m in units.members)
    report.check(got_units == sorted(G.UNITS), "R-TABLE-REF", (GEOM, "UnitEnum"), "UnitEnum values",
                 {"found": got_units, "required": sorted(G.UNITS)}, "3")
    fn = idx.get_function(GEOM, "Size.from_string")
    report.covered(fn)
    uses = [u for u in regex_uses(fn, folder) if u.method in ("search", "match", "fullmatch")]
    if len(uses) != 1:
        raise AnalysisError(f"Size.from_string: expected exactly one regex application, found {len(uses)}")
    use = uses[0]
    alpha = R.Alphabet(G.SIZE_ALPHABET)
    lang = R.lang_of_pattern(use.pattern, alpha, use.mode, use.flags, name="Size.from_string")
    ref = R.Lang(G.size_language(), alpha, "full", name="reference size language")
    w = R.equal_witness(lang, ref)
    report.check(w is None, "R-LANG-EQ", (fn, use.node), "size pattern == reference size language",
                 {"pattern": use.pattern, "applied_with": use.method,
                  "alphabet": "printable ASCII (the property quantifies over digits, '.', sign, exponent, "
                              "unit characters, '%' and space)",
                  "dfa_states": R.dfa_size(lang),
                  **({"difference": w[0], "shortest_witness": w[1]} if w else {})}, "3")
    # the unit group and the value group mean what the constructor call assumes
    grp = getattr(lang, "groups", {})
    if "value" in grp and "unit" in grp:
        gv = R.Lang(grp["value"], alpha, "full")
        gu = R.Lang(grp["unit"], alpha, "full")
        wv = R.equal_witness(gv, R.Lang(G.number_language(), alpha, "full"))
        wu = R.equal_witness(gu, R.Lang(R.alt(*[R.lit(u) for u in G.UNITS]), alpha, "full"))
        report.check(wv is None, "R-GROUP-ROLE", (fn, use.node), "group 'value' is a non-negative decimal",
                     {"witness": wv} if wv else None, "3")
        report.check(wu is None, "R-GROUP-ROLE", (fn, use.node), "group 'unit' is exactly the unit set",
                     {"witness": wu} if wu else None, "3")
    else:
        raise AnalysisError("Size.from_string: named groups 'value'/'unit' not found")
    # no match -> the syntax error, a match -> a value: Size.from_string folded on strings inside and outside the reference language
    from ..core.constfold import Folder as _F0, FoldRaise as _FR0
    F0 = _F0(idx)
    F0.object_classes = "*"
    pool = ["", " ", "px", "%", "12", "12 px", " 12px", "12px ", "-1px", "+1px", "1e3px", "12pxx", "1..2px", ".5px", "5.px", "5%5", "%5",
            "abc", "12 %", "1,5px", "0", "00", "0.0", "12px", "1.5em", "100%", "3c", "7pt", "0.5%", "0px", "007px", "12PX", "12Px", "1.2.3em"]
    wrong = []
    for text in pool:
        inside = ref.accepts(text)
        try:
            r0 = F0.eval_in("pycaption.geometry", ast.parse("Size.from_string(t)", mode="eval").body, {"t": text})
            outcome = "a value"
        except _FR0 as e0:
            outcome = e0.exc_name
        except AnalysisError as e0:
            raise AnalysisError(f"Size.from_string cannot be folded on {text!r}: {e0}")
        want = "a value" if inside else "CaptionReadSyntaxError"
        if outcome != want:
            wrong.append({"string": text, "outcome": outcome, "required": want})
    report.check(not wrong, "R-MUSTRAISE", fn, f"Size.from_string on {len(pool)} strings inside and outside the size language: a string outside "
                 "it raises CaptionReadSyntaxError, a string inside it gives a value", {"mismatches": wrong[:4]}, "3")

    # clause 4 ------------------------------------------------------------
    sfn = idx.get_function(GEOM, "Size.__str__")
    report.covered(sfn)
    # Size.__str__ is folded (constant evaluation of its source) on every unit x a set of values that
    # covers integers, one / two / more decimals, rounding up into the next integer and tiny values
    from ..core.constfold import Stub
    scls = idx.get_class(GEOM, "Size")
    samples = [0.0, 1.0, 7.0, 100.0, 12345.0, 0.5, 1.25, 33.33, 33.333, 66.666, 0.004, 0.005, 0.006, 9.995, 9.996, 19.999,
               10.10, 10.01, 999.999, 1e6, 1234567.891]
    bad = []
    n_eval = 0
    for u in units.members:
        for v in samples:
            n_eval += 1
            try:
                got = folder.call_function(sfn, [], self_value=Stub("size", {"value": v, "unit": u}, cls=scls))
            except AnalysisError as e:
                raise AnalysisError(f"Size.__str__ cannot be folded: {e}")
            r2 = round(v, 2)
            num = str(int(r2)) if float(r2).is_integer() else f"{r2:.2f}".rstrip("0").rstrip(".")
            want = f"{num}{u.value}"
            if got != want:
                bad.append({"value": v, "unit": u.name, "printed": got, "required": want})
    ok_print = not bad
    report.check(ok_print, "R-PRINT", sfn,
                 "a size prints as its value rounded to two decimals (trailing zeros dropped) followed by the unit",
                 {"evaluations": n_eval, "mismatches": bad[:4]}, "4")
    decs, unit_last = ([2], True) if ok_print else ([], False)
    if decs == [2] and unit_last:
        printed = R.Lang(G.printed_size_language(2), alpha, "full", name="printed sizes (non-negative)")
        w = R.difference_witness(printed, lang)
        report.check(w is None, "R-LANG-INCL", sfn, "language printed by Size.__str__ <= language parsed",
                     {"shortest_unparseable_print": w} if w is not None else
                     {"printed": "digits+ ('.' digit{1,2})? unit"}, "4")

    # print -> parse, folded: Size.from_string(str(Size(v, u))) is the size with v rounded to two decimals and the SAME unit, for
    # every unit x sample value (zero included), and so is from_string on zero spelled with each unit
    from ..core.constfold import Folder as _Folder, FoldRaise as _FoldRaise
    F2 = _Folder(idx)
    F2.object_classes = "*"
    bad_rt = []
    n_rt = 0

    def _ev(text, **local):
        return F2.eval_in("pycaption.geometry", ast.parse(text, mode="eval").body, local)
    spelled = [(f"{z}{u.value}", 0.0, u) for u in units.members for z in ("0", "0.0", "00")]
    for u in units.members:
        for v in samples:
            if v >= 0:
                spelled.append((None, v, u))
    for text, v, u in spelled:
        n_rt += 1
        try:
            if text is None:
                text = _ev(f"str(Size(v, UnitEnum.{u.name}))", v=v)
            back = _ev("Size.from_string(t)", t=text)
        except _FoldRaise as e:
            bad_rt.append({"printed": text, "raises": e.exc_name})
            continue
        except AnalysisError as e:
            raise AnalysisError(f"Size print -> parse cannot be folded on {text!r}: {e}")
        bv, bu = (back.attrs.get("value"), back.attrs.get("unit")) if isinstance(back, Stub) else (None, None)
        if getattr(bu, "name", None) != u.name or bv is None or abs(float(bv) - round(v, 2)) > 1e-9:
            bad_rt.append({"printed": text, "parsed_back": f"{bv} {getattr(bu, 'name', bu)}", "required": f"{round(v, 2)} {u.name}"})
    report.check(not bad_rt, "R-ROUNDTRIP", fn, "a printed size parses back to the same value (two decimals) and the same unit, zero "
                 "included", {"evaluations": n_rt, "mismatches": bad_rt[:4]}, "4")

    # clause 5 ------------------------------------------------------------
    pfn = idx.get_function(GEOM, "Padding.from_xml_attribute")
    report.covered(pfn)
    pinit = idx.get_function(GEOM, "Padding.__init__")
    order = pinit.params[1:]
    # the classmethod is folded (constant evaluation of its source) on 1..5 distinguishable
    # tokens, Size.from_string standing for the identity on tokens
    from ..core.constfold import Inst, FoldRaise
    sfs = idx.get_function(GEOM, "Size.from_string")
    folder.stubs = {sfs.key: (lambda tok: tok)}
    found = {}
    try:
        for k in (1, 2, 3, 4, 5):
            toks = [f"t{i}" for i in range(k)]
            try:
                v = folder.call_function(pfn, [" ".join(toks)])
            except FoldRaise:
                found[k] = "raises"
                continue
            except AnalysisError as e:
                raise AnalysisError(f"Padding.from_xml_attribute cannot be folded: {e}")
            if not isinstance(v, Inst) or v.cls.name != "Padding":
                raise AnalysisError(f"Padding.from_xml_attribute folds to {v!r}")
            m = {}
            for i, a_ in enumerate(v.args):
                m[order[i]] = toks.index(a_) if a_ in toks else None
            for kname, a_ in v.kwargs.items():
                m[kname] = toks.index(a_) if a_ in toks else None
            found[k] = m
    finally:
        folder.stubs = {}
    report.check(found.get(5) == "raises", "R-TABLE-REF", pfn, "a padding with more than four values is rejected",
                 {"five_values_give": found.get(5)}, "5")
    for k, want in G.PADDING_SHORTHAND.items():
        got = found.get(k)
        report.check(got == want, "R-TABLE-REF", pfn, f"padding shorthand with {k} value(s)",
                     {"found": got, "required (TTML: before end after start)": want}, "5")
    # the separator is ONE blank: doubled, leading or trailing blanks and tabs leave an empty or malformed component, which is
    # rejected like any other malformed size (the real Size.from_string this time)
    wrong_p = []
    for text in ("1px  2px", " 1px", "1px 2px ", "1px\t2px", "", " ", "1px 2px 3px 4px 5px", "1px,2px"):
        try:
            F0.eval_in("pycaption.geometry", ast.parse("Padding.from_xml_attribute(t)", mode="eval").body, {"t": text})
            wrong_p.append({"attribute": text, "outcome": "accepted", "required": "rejected"})
        except _FR0 as e0:
            if e0.exc_name not in ("CaptionReadSyntaxError", "ValueError"):
                wrong_p.append({"attribute": text, "outcome": e0.exc_name, "required": "CaptionReadSyntaxError (ValueError for the arity)"})
        except AnalysisError as e0:
            raise AnalysisError(f"Padding.from_xml_attribute cannot be folded on {text!r}: {e0}")
    for text in ("1px", "1px 2%", "1px 2px 3px", "1px 2px 3px 4px"):
        try:
            F0.eval_in("pycaption.geometry", ast.parse("Padding.from_xml_attribute(t)", mode="eval").body, {"t": text})
        except _FR0 as e0:
            wrong_p.append({"attribute": text, "outcome": e0.exc_name, "required": "accepted"})
    report.check(not wrong_p, "R-MUSTRAISE", pfn, "a padding attribute is one to four sizes separated by single blanks: anything else "
                 "(doubled, leading, trailing blanks, tabs, commas, five sizes) is rejected", {"mismatches": wrong_p[:4]}, "5")
    # anything else raises
    has_else_raise = any(isinstance(n, ast.Raise) for n in walk_no_nested(pfn.node))
    report.check(has_else_raise, "R-MUSTRAISE", pfn, "other arities are refused", None, "5")
    tfn = idx.get_function(GEOM, "Padding.to_xml_attribute")
    a = tfn.node.args
    pos = a.posonlyargs + a.args
    defaults = dict(zip([p.arg for p in pos[len(pos) - len(a.defaults):]], a.defaults))
    d = defaults.get("attribute_order")
    got = list(ast.literal_eval(d)) if d is not None else None
    report.check(got == list(G.PADDING_ATTRIBUTE_ORDER), "R-TABLE-REF", tfn,
                 "padding written in TTML order", {"found": got, "required": list(G.PADDING_ATTRIBUTE_ORDER)}, "5")
    report.assume("re._parser of the running interpreter is the parser that interprets the pattern at run time")


def _len_eq_const(test):
    if isinstance(test, ast.Compare) and len(test.ops) == 1 and isinstance(test.ops[0], ast.Eq) \
            and isinstance(test.left, ast.Call) and call_name(test.left) == "len" \
            and isinstance(test.comparators[0], ast.Constant):
        return test.comparators[0].value
    return None


def _const_index(expr):
    if isinstance(expr, ast.Subscript) and isinstance(expr.slice, ast.Constant):
        return expr.slice.value
    return src(expr)
