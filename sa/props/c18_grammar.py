def run(ctx, report):
    report.notes.append("clauses 3-5 pending regexlang engine")
