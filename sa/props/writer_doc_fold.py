"""C02 / C03 (text writers): `SRTWriter.write`, `WebVTTWriter.write`, `MicroDVDWriter.write`
folded on small caption sets; the written document is read back by a reference parser of the
format's grammar that shares nothing with pycaption.

The writers' sources are folded by the checker's evaluator (nothing of pycaption is imported
or run) on caption sets built from the same folded classes:

  times   consecutive pairs from a pool of boundary instants - 0, 999 us, 1 ms, 59.999999 s,
          1 min, 59:59.999, the first hour mark and just after it, 10 h, 23:59:59.999999, and a
          fractional instant of the kind the SCC reader produces - 1 to 3 captions per set;
  text    a pool of line lists: plain, two lines, an empty line between two lines (two breaks),
          an empty line carried by a white-space-only text node, a bare number, and lines made
          of each format's own metacharacters ('-->', '<i>', '&', '&amp;', '{1}{2}', '|').

Reference parsers: SubRip blocks separated by blank-looking lines (number, timing line, text lines);
WebVTT cue blocks (timing line, payload lines; tags stripped, character references decoded);
MicroDVD lines '{f}{f}text' with '|' between lines.

Obligations (for each set and writer):
  C02  one cue per caption, in order (SRT may merge consecutive captions with identical times);
       the written instants are the caption's truncated to the format's resolution, spelled in
       the format's own grammar (two-digit fields, three-digit milliseconds, integer frames)
  C03  each cue's lines are the caption's lines, in order, up to leading/trailing white space;
       an empty line is dropped or written as a non-breaking space, it never ends the cue
"""
import ast
import html
import itertools
import re

from ..core.tree import AnalysisError
from ..core.constfold import Folder, Stub, FoldRaise

S = 1000000
INSTANTS = [0, 999, 1000, 59999999, 60 * S, 3599999000, 3600 * S, 3600 * S + 1500, 36000 * S, 86399999999,
            1001000 / 30 * 90 + 3600 * S]
TEXTS = [
    ["hello"], ["one", "two"], ["one", None, "two"], ["one", " ", "two"], ["42"], ["a --> b"],
    ["<i>x</i> & y"], ["&amp; &lt;"], ["{1}{2}x"], ["one", "two", "three", "four"], ["é ü 漢"],
    ["He said", "...", "nothing"], ["?!"], ["♪ ♪"], ["100% sure %s %d %%"], ["copy C:\\new\\notes.txt \\t \\N"],
    # one line made of several adjacent text nodes: a metacharacter sequence may only come into being at the joint
    [("a --", "> b"), "second"], [("x &", "amp; y"), ("1 <", "i> 2")], [("go -", "-> there"), ("a -", "-", "> b")],
    # captions that display nothing (the 'clear' cues of SAMI and DFXP sources): still one timed cue each
    ["\xa0"], [" "],
    # text that is not in composed normal form (a decomposed accent, the ANGSTROM SIGN): the code points are the caption's
    ["Ame\u0301lie is 10 \u212b tall"],
]
BAR = ["a|b"]


def _captions_lines(lines):
    """visible lines of a caption built from `lines` (None = a break directly after a break)"""
    # (a tuple is one line made of several adjacent text nodes)
    flat = ["".join(l) if isinstance(l, tuple) else l for l in lines]
    return [l.strip() for l in flat if l is not None and l.strip()]


class World:
    def __init__(self, ctx):
        self.F = Folder(ctx.index)
        self.F.object_classes = ("Caption", "CaptionList", "CaptionNode", "CaptionSet")
        self.n = 0

    def ev(self, text, **local):
        return self.F.eval_in("pycaption.base", ast.parse(text, mode="eval").body, local)

    def caption(self, s, e, lines):
        nodes = []
        for i, l in enumerate(lines):
            if i:
                nodes.append(self.ev("CaptionNode.create_break()"))
            if isinstance(l, tuple):
                nodes += [self.ev("CaptionNode.create_text(t)", t=piece) for piece in l]
            elif l is not None:
                nodes.append(self.ev("CaptionNode.create_text(t)", t=l))
        return self.ev("Caption(s, e, n)", s=s, e=e, n=nodes)

    def write(self, fn, caps, other_empty_language=False, looked_at_first=False):
        # (other_empty_language: the set also holds a language without captions, listed after the written one;
        #  looked_at_first: before the write, every caption was printed and its times were formatted with both separators)
        # (an entry that is the same tuple OBJECT as an earlier one stands for one Caption object the list holds twice)
        made = {}
        objs = []
        for c in caps:
            if id(c) not in made:
                made[id(c)] = self.caption(*c)
            objs.append(made[id(c)])
        if looked_at_first:
            for c_ in objs:
                self.ev("(repr(c), c.format_start(msec_separator=','), c.format_end(msec_separator='.'), c.format_start(), c.format_end(msec_separator=','))", c=c_)
        cs = self.ev("CaptionSet({'en-US': CaptionList(cs), 'zz': CaptionList([])})" if other_empty_language else
                     "CaptionSet({'en-US': CaptionList(cs)})", cs=objs)
        self.n += 1
        return self.F.call_function(fn, [cs], {}, self_value=Stub("writer", {}, cls=fn.cls))


# ---------------------------------------------------------------- reference parsers
def parse_srt(doc):
    cues = []
    # a block ends at a blank-LOOKING line (empty, or holding only white space): that is what SubRip consumers test
    blocks = re.split(r"\n(?:[^\S\n]*\n)+", doc.strip("\n"))
    for b in blocks:
        ls = b.split("\n")
        if len(ls) < 2:
            return None, f"block without a timing line: {b[:40]!r}"
        if not re.fullmatch(r"\d+", ls[0]):
            return None, f"block does not start with its number: {b[:40]!r}"
        m = re.fullmatch(r"(\d{2,}):(\d{2}):(\d{2}),(\d{3}) --> (\d{2,}):(\d{2}):(\d{2}),(\d{3})", ls[1])
        if not m:
            return None, f"malformed timing line: {ls[1]!r}"
        g = [int(x) for x in m.groups()]
        if g[1] > 59 or g[2] > 59 or g[5] > 59 or g[6] > 59:
            return None, f"field out of range: {ls[1]!r}"
        cues.append((int(ls[0]), ((g[0] * 3600 + g[1] * 60 + g[2]) * 1000 + g[3]) * 1000,
                     ((g[4] * 3600 + g[5] * 60 + g[6]) * 1000 + g[7]) * 1000, ls[2:]))
    return cues, None


def parse_webvtt(doc):
    if not doc.startswith("WEBVTT"):
        return None, "no WEBVTT header"
    body = doc.split("\n", 1)[1] if "\n" in doc else ""
    cues = []
    for b in re.split(r"\n{2,}", body.strip("\n")):
        if not b:
            continue
        ls = b.split("\n")
        if "-->" not in ls[0] and len(ls) > 1:
            ls = ls[1:]            # cue identifier
        m = re.fullmatch(r"(?:(\d{2,}):)?(\d{2}):(\d{2})\.(\d{3})[ \t]+-->[ \t]+(?:(\d{2,}):)?(\d{2}):(\d{2})\.(\d{3})((?:[ \t]+\S+)*)[ \t]*", ls[0])
        if not m:
            return None, f"malformed timing line: {ls[0]!r}"
        g = [int(x) if x else 0 for x in m.groups()[:8]]
        if g[1] > 59 or g[2] > 59 or g[5] > 59 or g[6] > 59:
            return None, f"field out of range: {ls[0]!r}"
        payload = ls[1:]
        if any("-->" in l for l in payload):
            return None, f"'-->' inside a cue payload: {b[:60]!r}"
        text = [html.unescape(re.sub(r"<[^>]*>", "", l)).replace("\xa0", " ") for l in payload]
        cues.append((None, ((g[0] * 3600 + g[1] * 60 + g[2]) * 1000 + g[3]) * 1000,
                     ((g[4] * 3600 + g[5] * 60 + g[6]) * 1000 + g[7]) * 1000, text))
    return cues, None


def parse_microdvd(doc):
    cues = []
    if doc and not doc.endswith("\n"):
        return None, "last line is not terminated"
    for l in doc.split("\n")[:-1]:
        m = re.fullmatch(r"\{(\d+)\}\{(\d+)\}(.*)", l)
        if not m:
            return None, f"malformed line: {l[:40]!r}"
        cues.append((None, int(m.group(1)), int(m.group(2)), m.group(3).split("|")))
    return cues, None


FORMATS = {
    "SRT": ("pycaption/srt.py", "SRTWriter.write", parse_srt, lambda t: int(t) // 1000 * 1000, TEXTS + [BAR]),
    "WebVTT": ("pycaption/webvtt.py", "WebVTTWriter.write", parse_webvtt, lambda t: int(t) // 1000 * 1000, TEXTS + [BAR]),
    "MicroDVD": ("pycaption/microdvd.py", "MicroDVDWriter.write", parse_microdvd, lambda t: int(t * 25) // S, TEXTS),
}


def caption_sets(texts, thorough):
    pairs = list(zip(INSTANTS, INSTANTS[1:]))
    # one caption: every pair of consecutive instants x every text
    for (s, e), t in itertools.product(pairs, range(len(texts))):
        yield [(s, e, texts[t])]
    # two / three captions: consecutive pairs, texts rotating
    for i in range(len(pairs) - 1):
        for t in range(len(texts)):
            yield [(pairs[i][0], pairs[i][1], texts[t]), (pairs[i + 1][0], pairs[i + 1][1], texts[(t + 1) % len(texts)])]
    # identical times on consecutive captions (SRT may merge them), and the same times after another caption
    for i in (0, 5):
        s, e = pairs[i]
        yield [(s, e, texts[0]), (s, e, texts[1])]
        yield [(s, e, texts[0]), (s, e, texts[1]), (pairs[i + 1][0], pairs[i + 1][1], texts[4])]
        yield [(s, e, texts[0]), (pairs[i + 1][0], pairs[i + 1][1], texts[4]), (pairs[i + 2][0], pairs[i + 2][1], texts[1])]
    # one Caption object held twice by the list: followed by a caption with the same times the first time, alone the second
    for i in (0, 5):
        s, e = pairs[i]
        twice = (s, e, texts[0])
        yield [twice, (s, e, texts[1]), (pairs[i + 1][0], pairs[i + 1][1], texts[4]), twice]
        yield [twice, (pairs[i + 1][0], pairs[i + 1][1], texts[4]), twice, (s, e, texts[1])]
    # consecutive captions whose times agree to the millisecond (or frame) but are not identical: never merged
    for i in (0, 5):
        s, e = pairs[i]
        yield [(s, e, texts[0]), (s + 400, e, texts[1])]
        yield [(s, e, texts[0]), (s, e + 1, texts[1]), (pairs[i + 1][0] + 2000, pairs[i + 1][1] + 2000, texts[4])]
        yield [(s + 1, e + 1, texts[0]), (s, e, texts[1])]
    # instants that are not whole microseconds (the SCC reader returns such): truncated, never rounded up into the next unit
    yield [(2268933.333333333, 5004999.999999999, texts[0])]
    yield [(1000999.6, 2000999.4, texts[0]), (3000999.5, 3999999.9999, texts[1])]
    # captions that are NOT in ascending order of start: one cue per caption, in the set's own order
    for t in range(0, len(texts), 3):
        yield [(pairs[4][0], pairs[4][1], texts[t]), (pairs[1][0], pairs[1][1], texts[(t + 1) % len(texts)]),
               (pairs[2][0], pairs[2][1], texts[(t + 2) % len(texts)])]
    if thorough:
        for i in range(len(pairs) - 2):
            for t in range(len(texts)):
                yield [(pairs[i + k][0], pairs[i + k][1], texts[(t + 2 * k) % len(texts)]) for k in range(3)]


def explore(ctx, thorough):
    W = World(ctx)
    out = {}
    for name, (path, q, parse, trunc, texts) in FORMATS.items():
        fn = ctx.index.get_function(path, q)
        bad = {"cues": [], "times": [], "grammar": [], "text": []}
        n = 0
        jobs = []
        for i_, caps in enumerate(caption_sets(texts, thorough)):
            jobs.append((caps, False))
            if name != "SRT" and i_ % 9 == 0:         # (SRT writes every language of the set, one after the other)
                jobs.append((caps, True, False))
            if i_ % 11 == 3:
                jobs.append((caps, False, True))
        jobs = [j if len(j) == 3 else (j[0], j[1], False) for j in jobs]
        for caps, other, looked in jobs:
            n += 1
            case = {"captions": [(s, e, ls) for s, e, ls in caps], **({"the set also holds": "a language without captions"} if other else {}),
                    **({"before the write": "every caption was printed and its times formatted with '.' and ','"} if looked else {})}
            try:
                doc = W.write(fn, caps, other, looked)
            except FoldRaise as e:
                bad["cues"].append(dict(case, raises=e.exc_name or str(e)))
                continue
            except AnalysisError as e:
                raise AnalysisError(f"{q} cannot be folded on a small caption set: {e}")
            if not isinstance(doc, str):
                raise AnalysisError(f"{q}: the folded result is not a string")
            cues, err = parse(doc)
            if cues is None:
                bad["grammar"].append(dict(case, document=doc[:200], problem=err))
                continue
            # expected cues: SRT may merge consecutive captions with identical (start, end)
            want = []
            for s, e, ls in caps:
                if name == "SRT" and want and (want[-1][0], want[-1][1]) == (s, e):
                    want[-1][2].extend(_captions_lines(ls))
                else:
                    want.append([s, e, _captions_lines(ls)])
            if len(cues) != len(want):
                bad["cues"].append(dict(case, document=doc[:200], cues=len(cues), required=len(want)))
                continue
            if name == "SRT" and [c[0] for c in cues] != list(range(1, len(cues) + 1)):
                bad["grammar"].append(dict(case, document=doc[:200], problem="cue numbers are not 1, 2, 3, ..."))
                continue
            gt = [(c[1], c[2]) for c in cues]
            wt = [(trunc(s), trunc(e)) for s, e, _ in want]
            if gt != wt:
                bad["times"].append(dict(case, written=gt, required=wt, document=doc[:120]))
                continue
            gl = [[l.strip() for l in c[3] if l.strip()] for c in cues]
            wl = [w[2] for w in want]
            if any(isinstance(l, tuple) for _, _, ls in caps for l in ls):
                # a line made of several text nodes: a writer may put a blank at the joints (as the markup writers do);
                # such lines are compared without white space
                gl = [[re.sub(r"\s+", "", l) for l in c_] for c_ in gl]
                wl = [[re.sub(r"\s+", "", l) for l in c_] for c_ in wl]
            if gl != wl:
                bad["text"].append(dict(case, read_back=gl, required=wl, document=doc[:200]))
        out[name] = (fn, bad, n)
    return W, out


def run(ctx, report, keys, clause_by_key, rule_by_key):
    thorough = ctx.tier == "thorough"
    W, out = ctx.memo(("writer_doc_fold", thorough), lambda: explore(ctx, thorough))
    texts = {
        "cues": "one cue per caption, in order (no cue created, lost, split or merged because of its text or times)",
        "times": "written instants are the caption's, truncated to the format's resolution",
        "grammar": "the document is accepted by the format's own grammar (field widths, ranges, separators)",
        "text": "each cue reads back as the caption's lines, in order, up to white space",
    }
    total = 0
    for name, (fn, bad, n) in out.items():
        report.covered(fn)
        total += n
        for k in keys:
            report.check(not bad[k], rule_by_key[k], fn, f"{name} writer on {n} small caption sets: {texts[k]}",
                         {"caption_sets": n, "mismatches": bad[k][:2]}, clause_by_key[k])
    report.count("writer_documents_folded", total)


def blank_lines(ctx, report, clause="3"):
    """R-BLANKLINE for the line-oriented writers, as a fold: runs of 1-4 line breaks between two text lines, with and
    without white-space-only text nodes (blank, tab, non-breaking space) between them, never produce a line that
    ends the cue: the document still has one cue per caption and the cue still has both lines"""
    W = World(ctx)
    for name in ("SRT", "MicroDVD"):
        path, q, parse, trunc, _ = FORMATS[name]
        fn = ctx.index.get_function(path, q)
        report.covered(fn)
        bad = []
        n = 0
        for k in (1, 2, 3, 4):
            for filler in (None, " ", "\t", "\xa0", "\xa0 "):
                if filler is not None and k == 1:
                    continue
                mid = []
                for j in range(k - 1):
                    mid.append(filler if (filler is not None and j == 0) else None)
                lines = ["a"] + mid + ["b"]
                # `lines`: None = a break directly after a break; a string = a text node on its own line
                caps = [(S, 2 * S, lines), (3 * S, 4 * S, ["next"])]
                n += 1
                try:
                    doc = W.write(fn, caps)
                except FoldRaise as e:
                    bad.append({"breaks": k, "between": filler, "raises": e.exc_name or str(e)})
                    continue
                except AnalysisError as e:
                    raise AnalysisError(f"{q} cannot be folded: {e}")
                cues, err = parse(doc)
                if cues is None or len(cues) != 2 or [l.strip() for l in cues[0][3] if l.strip()] != ["a", "b"]:
                    bad.append({"breaks": k, "white_space_node_between": filler, "document": doc[:120],
                                "read_back": err or [c[3] for c in cues]})
        report.check(not bad, "R-BLANKLINE", fn, "runs of line breaks (and white-space-only lines) never end the cue block",
                     {"captions_folded": n, "mismatches": bad[:3]}, clause)
