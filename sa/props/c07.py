"""C07 - DFXP output is well-formed XML and internally consistent.

Decided clauses (DESIGN.md 4/C07), for DFXPWriter, SinglePositioningDFXPWriter, LegacyDFXPWriter:
 1 R-ESCAPE-ONCE every model string (text, style values, class names, style ids, language codes, force option) that
               reaches a raw sink is escaped exactly once for that sink's context
 2 R-SPAN-TYPESTATE (a) the span routine alternates opening and closing tags for EVERY input sequence
 3 references  a style= is written only after the lookup of that id in the document succeeded; region ids come from
               the region table or the default region, which is always created
 4 regions     every positioning query marks its region as used; create -> queries -> cleanup -> serialise; the
               clean-up loop iterates a materialised list
 5 structure   one div per language, one p (begin, end) per caption
NOT decided: uniqueness of user-chosen ids, XML 1.0 character range, serializer behaviour.
"""
import ast
import re

from ..core.tree import AnalysisError
from ..core.astutil import walk_no_nested, call_name, short, src, kwarg, resolve_local, enclosing_conjuncts
from ..engines import effects as E
from ..engines import pathrules as PR
from ..engines.taintrules import rule_escape_once
from ..engines.typestate import span_table, check_alternation

DFXP = "pycaption/dfxp/base.py"
EXTRAS = "pycaption/dfxp/extras.py"
ALL_SOURCES = {"text", "style-value", "style-key", "style-id", "class", "lang", "option:force", "unknown",
               "cue-settings"}
WRITERS = [(DFXP, "DFXPWriter"), (EXTRAS, "SinglePositioningDFXPWriter"), (EXTRAS, "LegacyDFXPWriter")]


def run(ctx, report):
    E.validate_schema(ctx.index)
    for path, name in WRITERS:
        report.section(f"escaping {name}", escaping, ctx, report, path, name)
    report.section("span typestate", spans, ctx, report)
    report.section("references", references, ctx, report)
    report.section("regions", regions, ctx, report)
    report.structural_section("structure (shape)", "R-DOC-CUES / R-DOC-REFS on the folded documents of the three DFXP writers (one div per "
                              "language, one p per caption)", structure, ctx, report)
    from . import markup_writer_fold
    report.section("written documents", markup_writer_fold.run, ctx, report, {
        "wellformed": ("R-DOC-GRAMMAR", "1"), "structure": ("R-DOC-CUES", "1"), "refs": ("R-DOC-REFS", "2")})
    report.not_decided += ["uniqueness of ids across user-chosen style names and generated region ids",
                           "XML 1.0 character range of the text", "namespace handling by the serializer"]
    report.assume("bs4 prettify(formatter=None) performs no entity substitution and quotes attribute values itself")
    report.assume("xml.sax.saxutils.escape replaces & < > (and the extra entities passed to it)")


def escaping(ctx, report, path, name):
    cls = ctx.index.get_class(path, name)
    wr = cls.find_method("write")
    pname = wr.params[1]
    params = {pname: E.model_param(ctx.index, "CaptionSet", f"P:{pname}"), "force": E.option_str("force")}
    run = E.run_entry(ctx, cls, "write", params)
    for f in sorted(run.I.visited_functions):
        report.covered(f)
    n, bad = rule_escape_once(report, run, ALL_SOURCES, "1", name)
    if n < 8:
        raise AnalysisError(f"{name}: only {n} sink events seen (floor 8)")
    report.count("sink_events", n)
    keys = run.events("escaped-key")
    seen = set()
    for e in keys:
        k = (e.fn.key if e.fn else "?", short(e.node, 80))
        if k in seen:
            continue
        seen.add(k)
        report.violation("R-ESCAPE-AT-SINK", (e.fn, e.node) if e.fn else (path, name),
                         f"{name}: an escaped string is used as a key of the caption set ({e.what})",
                         {"call": short(e.node, 100), "escapes_applied": e.extra.get("escapes"),
                          "why": "the model is keyed by the raw value: the escaped form finds no captions / style, and the "
                                 "element is written empty"}, "1")
    if not seen:
        report.ok("R-ESCAPE-AT-SINK", (path, name), f"{name}: escaping happens at the sinks only, never before a model lookup",
                  {"model_accessor_calls_with_escaped_arguments": 0}, "1")


def spans(ctx, report):
    # folded on every flat node sequence (the flag-automaton extraction this replaces alarmed when the span terminator was
    # moved into a helper)
    from . import markup_writer_fold
    markup_writer_fold.span_sequences(ctx, report, "R-SPAN-TYPESTATE", "2", ("DFXPWriter", "LegacyDFXPWriter"))


def references(ctx, report):
    # style= stores are dominated by the lookup of that id
    for path, q in ((DFXP, "_recreate_style"), (EXTRAS, "LegacyDFXPWriter._recreate_style")):
        fn = ctx.index.get_function(path, q)
        report.covered(fn)
        stores = [n for n in walk_no_nested(fn.node) if isinstance(n, ast.Assign) and isinstance(n.targets[0], ast.Subscript)
                  and isinstance(n.targets[0].slice, ast.Constant) and n.targets[0].slice.value in ("style", "region")]
        if not stores:
            raise AnalysisError(f"{q}: no style=/region= reference stores found")
        for st in stores:
            which = st.targets[0].slice.value
            tagname = "style" if which == "style" else "region"
            val = src(resolve_local(fn, st.value)).replace('"', "'")
            guards = enclosing_conjuncts(fn, st)
            if guards is None:
                raise AnalysisError(f"{q}: store of the {which}= reference not located")
            want = f"dfxp.find('{tagname}', {{'xml:id': {val}}})"
            ok = want in guards
            report.check(ok, "R-DOMINATES", (fn, st), f"{which}= reference is written only after the {tagname} with that id "
                         "was found in the document", {"dominating_guards": guards, "required": want}, "3")
    for path, q in ((DFXP, "DFXPWriter._recreate_p_tag"), (EXTRAS, "LegacyDFXPWriter._recreate_p_tag")):
        fn = ctx.index.get_function(path, q)
        report.covered(fn)
        stores = [n for n in walk_no_nested(fn.node) if isinstance(n, ast.Assign) and src(n.targets[0]) == "p['style']"]
        for st in stores:
            guards = enclosing_conjuncts(fn, st) or []
            rv = resolve_local(fn, st.value)
            lit = rv.value if isinstance(rv, ast.Constant) else None
            want = f"dfxp.find('style', {{'xml:id': '{lit}'}})"
            ok = want in guards
            report.check(ok, "R-DOMINATES", (fn, st), "style='p' is written only when a <style xml:id='p'> exists in the document",
                         {"dominating_guards": guards, "required": want,
                          "why": "asking the caption set instead of the document leaves a dangling reference when the "
                                 "style has no writable attribute and is therefore not emitted"}, "3")
    # region ids
    gp = ctx.index.get_function(DFXP, "RegionCreator.get_positioning_info", inline=True)
    report.covered(gp)
    from .c12 import region_id_source
    ok, how = region_id_source(gp)
    report.check(bool(ok), "R-DOMINATES", gp, "a region id is taken from the region table or is the default region id",
                 {"region_id_is": how}, "3")
    by = "R-DOC-REFS on the folded DFXP documents of the three writers under their options (every region= resolves to exactly one " \
         "definition, every region defined is referenced, ids unique)"
    report.structural_section("default region (shape)", by, default_region_shape, ctx, report)
    report.structural_section("region table (shape)", by, region_table_shape, ctx, report)


def default_region_shape(ctx, report):
    cd = ctx.index.get_function(DFXP, "RegionCreator.create_document_regions")
    report.covered(cd)
    calls = [c for c in walk_no_nested(cd.node) if isinstance(c, ast.Call) and (call_name(c) or "").endswith("_create_unique_regions")]
    ok = len(calls) == 2 and src(calls[0].args[0]) == "[DFXP_DEFAULT_REGION]" and "DFXP_DEFAULT_REGION_ID" in src(calls[0])
    upd = [c for c in walk_no_nested(cd.node) if isinstance(c, ast.Call) and src(c) == "self._region_map.update(default_region_map)"]
    report.recognise(ok and len(upd) == 1, "R-MUSTCALL", cd, "the default region is always created and registered", None, "3")


def region_table_shape(ctx, report):
    cur = ctx.index.get_function(DFXP, "RegionCreator._create_unique_regions")
    t = src(cur.node)
    ok = "new_region['xml:id'] = new_id" in t and "region_map[region_spec] = new_id" in t and "layout_section.append(new_region)" in t
    report.recognise(ok, "R-FIELD-ROUTING", cur, "the id stored in the region table is the id of the region element appended", None, "3")


def regions(ctx, report):
    gp = ctx.index.get_function(DFXP, "RegionCreator.get_positioning_info", inline=True)
    cl = PR.call_classifier({"_assigned_region_ids.add": "MARK"})
    paths = PR.paths_of_block(gp.node.body, cl)
    bad = [PR.flat(ev) for ev, end in paths if end == "return" and "MARK" not in PR.flat(ev)]
    report.check(not bad and paths, "R-MUSTCALL", gp, "every positioning query marks the returned region as used",
                 {"paths": len(paths), "unmarked": bad[:2]}, "4")
    by = "R-DOC-REFS on the folded DFXP documents of the three writers under their options (every region defined is referenced, every " \
         "reference resolves)"
    report.structural_section("marked id (shape)", by, marked_id_shape, ctx, report, gp)
    wr = ctx.index.get_function(DFXP, "DFXPWriter.write")
    cl = PR.call_classifier({"create_document_regions": "CREATE", "_assign_positioning_data": "QUERY", "_recreate_p_tag": "QUERY",
                             "cleanup_regions": "CLEANUP", "prettify": "SERIALISE"})
    paths = PR.paths_of_block(wr.node.body, cl)
    bad = []
    for ev, end in paths:
        f = PR.flat(ev)
        if "SERIALISE" not in f:
            continue
        if not ("CREATE" in f and "CLEANUP" in f and f.index("CREATE") < f.index("CLEANUP") < f.index("SERIALISE")):
            bad.append(f)
            continue
        qs = [i for i, e in enumerate(f) if e == "QUERY"]
        if qs and (min(qs) < f.index("CREATE") or max(qs) > f.index("CLEANUP")):
            bad.append(f)
    report.check(not bad, "R-ORDER", wr, "create regions -> all positioning queries -> cleanup -> serialise",
                 {"offending_paths": bad[:2]}, "4")
    cu = ctx.index.get_function(DFXP, "RegionCreator.cleanup_regions")
    report.covered(cu)
    loops = [n for n in walk_no_nested(cu.node) if isinstance(n, ast.For) and any(
        isinstance(c, ast.Call) and isinstance(c.func, ast.Attribute) and c.func.attr in ("extract", "decompose")
        for c in walk_no_nested(n))]
    if len(loops) != 1:
        raise AnalysisError("cleanup_regions: removal loop not found")
    it = loops[0].iter
    live = isinstance(it, ast.Attribute) and it.attr in ("children", "contents", "descendants", "next_siblings")
    resolved = src(it)
    if isinstance(it, ast.Name):
        for n in walk_no_nested(cu.node):
            if isinstance(n, ast.Assign) and src(n.targets[0]) == it.id:
                resolved = src(n.value)
                live = isinstance(n.value, ast.Attribute) and n.value.attr in ("children", "contents", "descendants")
    report.check(not live, "R-ITER-MUTATE", (cu, loops[0]), "regions are removed while iterating a materialised list",
                 {"iterates": resolved, "why": "extracting a node while walking the live child iterator skips its next sibling"}, "4")
    report.structural_section("cleanup guard (shape)", by, cleanup_guard_shape, ctx, report, cu, loops[0])


def marked_id_shape(ctx, report, gp):
    mk = [c for c in walk_no_nested(gp.node) if isinstance(c, ast.Call) and (call_name(c) or "").endswith("_assigned_region_ids.add")]
    report.recognise(len(mk) == 1 and src(mk[0].args[0]) == "region_id", "R-FIELD-ROUTING", gp, "the id marked is the id returned", None, "4")


def cleanup_guard_shape(ctx, report, cu, loop):
    t = [n for n in walk_no_nested(loop) if isinstance(n, ast.If)]
    ok = len(t) == 1 and src(t[0].test) == "region.attrs.get('xml:id') not in self._assigned_region_ids"
    report.recognise(ok, "R-GUARD", cu, "exactly the regions that were never assigned are removed", [src(x.test) for x in t], "4")


def structure(ctx, report):
    for path, q in ((DFXP, "DFXPWriter.write"), (EXTRAS, "LegacyDFXPWriter.write")):
        fn = ctx.index.get_function(path, q)
        report.covered(fn)
        lang_loops = [n for n in walk_no_nested(fn.node) if isinstance(n, ast.For) and any(
            isinstance(c, ast.Call) and src(c) == "dfxp.new_tag('div')" for c in walk_no_nested(n))]
        if len(lang_loops) != 1:
            raise AnalysisError(f"{q}: language loop not found")
        ll = lang_loops[0]

        def cl(n):
            if isinstance(n, ast.Call):
                s_ = src(n)
                if s_ == "dfxp.new_tag('div')":
                    return "NEWDIV"
                if s_ == "body.append(div)":
                    return "ADDDIV"
                if s_ == "div.append(p)":
                    return "ADDP"
                if (call_name(n) or "").endswith("_recreate_p_tag"):
                    return "NEWP"
            return None
        paths = PR.paths_of_block(ll.body, cl)
        bad = []
        for ev, end in paths:
            top = [e for e in ev if not (isinstance(e, tuple) and e and e[0] == "loop")]
            if top.count("NEWDIV") != 1 or top.count("ADDDIV") != 1:
                bad.append([str(e) for e in ev])
            for e in ev:
                if isinstance(e, tuple) and e and e[0] == "loop":
                    inner = PR.flat(e[1])
                    if inner and (inner.count("NEWP") != 1 or inner.count("ADDP") != 1):
                        bad.append(inner)
        report.check(not bad, "R-ONCE", (fn, ll), "one div per language; one p created and appended per caption",
                     {"offending": bad[:2]}, "5")
    for path, q in ((DFXP, "DFXPWriter._recreate_p_tag"), (EXTRAS, "LegacyDFXPWriter._recreate_p_tag")):
        fn = ctx.index.get_function(path, q)
        tags = [c for c in walk_no_nested(fn.node) if isinstance(c, ast.Call) and (call_name(c) or "").endswith("new_tag")
                and c.args and isinstance(c.args[0], ast.Constant) and c.args[0].value == "p"]
        ok = len(tags) == 1 and kwarg(tags[0], "begin") is not None and kwarg(tags[0], "end") is not None
        report.check(ok, "R-ONCE", fn, "every p carries begin and end", [short(t) for t in tags], "5")
