"""Self-validation of the checker on the current tree (thorough tier).

Seeded variants (single-site AST edits generated from the CURRENT sources, in
memory) must each be reported; silent twins (behaviour-preserving rewrites)
must produce no report.  A failure here is ANALYSIS-ERROR (the checker is
broken), never a property violation.
"""
def run_selfval(prop, tree, report, seed):
    try:
        from .selfval_impl import run
    except ImportError:
        return {"status": "self-validation corpus not built for this property yet", "variants": 0, "failures": []}
    return run(prop, tree, report, seed)
