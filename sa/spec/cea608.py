"""Reference generators for CEA-608 (line 21) code tables, written from the
standard's bit layout - independent of pycaption's tables.

All keys are lower-case hex strings of the bytes *with odd parity applied*
(bit 7 set so that the byte has an odd number of one bits), channel 1, as they
appear in Scenarist SCC files.
"""


def odd_parity(b7):
    """7-bit value -> 8-bit byte with odd parity."""
    b7 &= 0x7F
    ones = bin(b7).count("1")
    return b7 | (0x80 if ones % 2 == 0 else 0)


def has_odd_parity(byte):
    return bin(byte & 0xFF).count("1") % 2 == 1


def hx(b):
    return f"{b:02x}"


def word(b1_7bit, b2_7bit):
    return hx(odd_parity(b1_7bit)) + hx(odd_parity(b2_7bit))


# Preamble address codes ----------------------------------------------------
# first byte (7 bit, channel 1) -> (row when second byte in 0x40-0x5f, row when in 0x60-0x7f)
PAC_ROW_PAIRS = {
    0x11: (1, 2), 0x12: (3, 4), 0x15: (5, 6), 0x16: (7, 8), 0x17: (9, 10),
    0x10: (11, None), 0x13: (12, 13), 0x14: (14, 15),
}


def pac_table():
    """{high byte hex: {low byte hex: (row, column)}} for the 480 channel-1
    PACs.  Second byte: bit 5 selects the second row of the pair; bits 4..1 are
    the attribute (0-6 colour, 7 italics -> column 0; 8-15 -> indent
    4*(v-8)); bit 0 is underline."""
    table = {}
    for b1, (r_lo, r_hi) in PAC_ROW_PAIRS.items():
        hb = hx(odd_parity(b1))
        for b2 in range(0x40, 0x80):
            row = r_lo if b2 < 0x60 else r_hi
            if row is None:
                continue
            v = (b2 & 0x1E) >> 1
            col = 4 * (v - 8) if v >= 8 else 0
            table.setdefault(hb, {})[hx(odd_parity(b2))] = (row, col)
    return table


def pac_attributes(low_byte_hex):
    b2 = int(low_byte_hex, 16) & 0x7F
    v = (b2 & 0x1E) >> 1
    return {"underline": bool(b2 & 1), "italics": v == 7, "indent": 4 * (v - 8) if v >= 8 else None,
            "colour_index": v if v < 7 else None}


def pac_for_7bit(hb_hex, lb_hex):
    """Reference position of a PAC irrespective of the parity bit."""
    b1 = int(hb_hex, 16) & 0x7F
    b2 = int(lb_hex, 16) & 0x7F
    if b1 not in PAC_ROW_PAIRS or not (0x40 <= b2 <= 0x7F):
        return None
    r_lo, r_hi = PAC_ROW_PAIRS[b1]
    row = r_lo if b2 < 0x60 else r_hi
    if row is None:
        return None
    v = (b2 & 0x1E) >> 1
    return (row, 4 * (v - 8) if v >= 8 else 0)


# Tab offsets: 0x17 0x21..0x23
TAB_OFFSETS = {word(0x17, 0x21): 1, word(0x17, 0x22): 2, word(0x17, 0x23): 3}

# Basic character set: ASCII except these code points ------------------------
_BASIC_EXCEPTIONS = {
    0x27: {"'", "’"},
    0x2A: {"á"}, 0x5C: {"é"}, 0x5E: {"í"}, 0x5F: {"ó"}, 0x60: {"ú"},
    0x7B: {"ç"}, 0x7C: {"÷"}, 0x7D: {"Ñ"}, 0x7E: {"ñ"}, 0x7F: {"█"},
}


def basic_characters():
    """{byte hex (odd parity): set of acceptable characters}"""
    out = {}
    for c in range(0x20, 0x80):
        out[hx(odd_parity(c))] = set(_BASIC_EXCEPTIONS.get(c, {chr(c)}))
    return out


# Special characters: 0x11 0x30..0x3f ---------------------------------------
_SPECIAL = ["®", "°", "½", "¿", "™", "¢", "£", "♪",
            "à", {" ", " "}, "è", "â", "ê", "î", "ô", "û"]


def special_characters():
    out = {}
    for i, ch in enumerate(_SPECIAL):
        out[word(0x11, 0x30 + i)] = set(ch) if isinstance(ch, set) else {ch}
    return out


# Extended characters: 0x12 0x20..0x3f (Spanish/French/misc), 0x13 0x20..0x3f
# (Portuguese/German/Danish).  Where published tables disagree (typographic vs
# plain quotes; the two bar glyphs of the 0x13 set) both readings are accepted.
_EXT_12 = ["Á", "É", "Ó", "Ú", "Ü", "ü", {"‘", "'"}, "¡",
           "*", {"’", "'"}, {"—", "─", "-"}, "©", "℠", {"•", "·"},
           {"“", '"'}, {"”", '"'},
           "À", "Â", "Ç", "È", "Ê", "Ë", "ë", "Î",
           "Ï", "ï", "Ô", "Ù", "ù", "Û", "«", "»"]
_EXT_13 = ["Ã", "ã", "Í", "Ì", "ì", "Ò", "ò", "Õ",
           "õ", "{", "}", "\\", "^", "_", {"|", "¦"}, "~",
           "Ä", "ä", "Ö", "ö", "ß", "¥", "¤", {"|", "¦", "│"},
           "Å", "å", "Ø", "ø", "┌", "┐", "└", "┘"]


def extended_characters():
    out = {}
    for i, ch in enumerate(_EXT_12):
        out[word(0x12, 0x20 + i)] = set(ch) if isinstance(ch, set) else {ch}
    for i, ch in enumerate(_EXT_13):
        out[word(0x13, 0x20 + i)] = set(ch) if isinstance(ch, set) else {ch}
    return out


# Miscellaneous control codes, channel 1 (0x14 0x20..0x2f)
CONTROL = {
    "RCL": word(0x14, 0x20), "BS": word(0x14, 0x21), "AOF": word(0x14, 0x22), "AON": word(0x14, 0x23),
    "DER": word(0x14, 0x24), "RU2": word(0x14, 0x25), "RU3": word(0x14, 0x26), "RU4": word(0x14, 0x27),
    "FON": word(0x14, 0x28), "RDC": word(0x14, 0x29), "TR": word(0x14, 0x2A), "RTD": word(0x14, 0x2B),
    "EDM": word(0x14, 0x2C), "CR": word(0x14, 0x2D), "ENM": word(0x14, 0x2E), "EOC": word(0x14, 0x2F),
}

# Mid-row codes 0x11 0x20..0x2f : colour/italics, bit0 underline
MIDROW_ITALICS = {word(0x11, 0x2E), word(0x11, 0x2F)}

SCREEN_COLUMNS = 32
SCREEN_ROWS = 15
SAFE_AREA = {"x0": 10, "x1": 90, "y0": 5, "y1": 95}
FRAME_RATE_NOMINAL = 30
NDF_FACTOR = (1001, 1000)
