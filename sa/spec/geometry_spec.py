"""Reference facts about sizes and layouts (TTML 1 / WebVTT), independent of
pycaption's code."""
from ..engines import regexlang as R

UNITS = ("px", "em", "%", "c", "pt")
# the property quantifies over strings of digits, '.', sign, exponent, unit characters, '%' and space;
# the comparison is made over all printable ASCII
SIZE_ALPHABET = [chr(i) for i in range(0x20, 0x7F)]
_D = R.cset("0123456789")


def number_language():
    return R.cat(R.plus(_D), R.opt(R.cat(R.cset("."), R.plus(_D))))


def size_language():
    """non-negative decimal number followed by a unit, or a bare 0"""
    return R.alt(R.cat(number_language(), R.alt(*[R.lit(u) for u in UNITS])), R.lit("0"))


def printed_size_language(decimals):
    """what printing a non-negative value with `decimals` places, trailing zeros
    and a trailing dot stripped, followed by the unit, can produce"""
    frac = R.opt(R.cat(R.cset("."), R.rep(_D, 1, decimals)))
    return R.cat(R.plus(_D), frac, R.alt(*[R.lit(u) for u in UNITS]))


# TTML padding shorthand: constructor argument -> index into the list of given sizes
PADDING_SHORTHAND = {
    1: {"before": 0, "after": 0, "start": 0, "end": 0},
    2: {"before": 0, "after": 0, "start": 1, "end": 1},
    3: {"before": 0, "start": 1, "end": 1, "after": 2},
    4: {"before": 0, "end": 1, "after": 2, "start": 3},
}
PADDING_ATTRIBUTE_ORDER = ("before", "end", "after", "start")

# unit conversion (C13)
EM_PX = 16
PT_PX = (96, 72)
CELL_COLUMNS = 32
CELL_ROWS = 15
SAFE_RIGHT = 90
SAFE_BOTTOM = 95

TTML_TEXT_ALIGN = {"left", "center", "right", "start", "end"}
TTML_DISPLAY_ALIGN = {"before", "center", "after"}
WEBVTT_ALIGN = {"left", "center", "right", "start", "end"}
