"""Abstract shape of the caption model (pycaption/base.py, geometry.py), used
for objects that arrive through an entry parameter.  Validated against the
classes' __init__ on every run (an attribute that is no longer initialised is
an ANALYSIS-ERROR)."""
L = ("opt", ("obj", "Layout"))
SZ = ("obj", "Size")
SCHEMA = {
    "CaptionSet": {"_captions": ("dict", ("data", "lang"), ("obj", "CaptionList")),
                   "_styles": ("dict", ("data", "style-id"), ("dict", ("data", "style-key"), ("data", "style-value"))),
                   "layout_info": L},
    "CaptionList": {"layout_info": L, "__elem__": ("obj", "Caption")},
    "Caption": {"start": ("num",), "end": ("num",), "nodes": ("list", ("obj", "CaptionNode")),
                "style": ("dict", ("data", "style-key"), ("data", "style-value")), "layout_info": L},
    "CaptionNode": {"type_": ("num",), "content": ("anydata", "text", "style-value"), "start": ("bool",),
                    "layout_info": L, "position": ("opt", ("num",))},
    "Layout": {"origin": ("opt", ("obj", "Point")), "extent": ("opt", ("obj", "Stretch")),
               "padding": ("opt", ("obj", "Padding")), "alignment": ("opt", ("obj", "Alignment")),
               "webvtt_positioning": ("opt", ("data", "cue-settings"))},
    "Point": {"x": SZ, "y": SZ},
    "Stretch": {"horizontal": SZ, "vertical": SZ},
    "Padding": {"before": SZ, "after": SZ, "start": SZ, "end": SZ},
    "Size": {"value": ("num",), "unit": ("enum",)},
    "Alignment": {"horizontal": ("opt", ("enum",)), "vertical": ("opt", ("enum",))},
}
