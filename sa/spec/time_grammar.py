"""Reference timestamp grammars and unit tables, written from the format
specifications (SubRip, WebVTT, TTML 1, SAMI, MicroDVD, SCC), independent of
pycaption's code.  Languages are regexlang ASTs."""
from fractions import Fraction

from ..engines import regexlang as R

D = R.cset("0123456789")
US = {"h": 3600 * 10**6, "m": 60 * 10**6, "s": 10**6, "ms": 10**3}

# TTML: pycaption documents 30 frames per second for the frames field / 'f' metric
TTML_FRAME_RATE = 30
TTML_OFFSET_UNITS = {"h": US["h"], "m": US["m"], "s": US["s"], "ms": US["ms"],
                     "f": Fraction(10**6, TTML_FRAME_RATE)}
MICRODVD_DEFAULT_FPS = 25
SAMI_LAST_CUE_MS = 4000
SCC_FRAME_RATE = 30
SCC_NDF_FACTOR = Fraction(1001, 1000)


def webvtt_timestamp():
    """[hh+:]mm:ss.ttt  (hours optional, two or more digits)"""
    return R.cat(R.opt(R.cat(R.rep(D, 2, None), R.lit(":"))), R.rep(D, 2, 2), R.lit(":"), R.rep(D, 2, 2),
                 R.lit("."), R.rep(D, 3, 3))


def webvtt_timing_line(alphabet):
    ws = R.plus(R.cset(" \t"))
    setting = R.plus(R.cset(alphabet.set - set(" \t")))
    return R.cat(webvtt_timestamp(), ws, R.lit("-->"), ws, webvtt_timestamp(),
                 R.star(R.cat(ws, setting)), R.star(R.cset(" \t")))


def srt_timestamp():
    return R.cat(R.rep(D, 2, None), R.lit(":"), R.rep(D, 2, 2), R.lit(":"), R.rep(D, 2, 2), R.lit(","), R.rep(D, 3, 3))


def ttml_clock_time():
    """hh+:mm:ss( .fraction | :frames )?"""
    return R.cat(R.rep(D, 2, None), R.lit(":"), R.rep(D, 2, 2), R.lit(":"), R.rep(D, 2, 2),
                 R.opt(R.alt(R.cat(R.lit("."), R.plus(D)), R.cat(R.lit(":"), R.rep(D, 2, 2)))))


def ttml_offset_time():
    return R.cat(R.plus(D), R.opt(R.cat(R.lit("."), R.plus(D))), R.alt(*[R.lit(m) for m in ("h", "m", "s", "ms", "f")]))


def ttml_time_expression():
    return R.alt(ttml_clock_time(), ttml_offset_time())


def dfxp_written_clock_time():
    """what a millisecond formatter prints: hh+:mm:ss.mmm"""
    return R.cat(R.rep(D, 2, None), R.lit(":"), R.rep(D, 2, 2), R.lit(":"), R.rep(D, 2, 2), R.lit("."), R.rep(D, 3, 3))


def microdvd_line(alphabet):
    return R.cat(R.lit("{"), R.plus(D), R.lit("}"), R.lit("{"), R.plus(D), R.lit("}"), R.star(R.cset(alphabet.set)))


def microdvd_prefix():
    return R.cat(R.lit("{"), R.plus(D), R.lit("}"), R.lit("{"), R.plus(D), R.lit("}"))


def scc_timecode():
    return R.cat(R.rep(D, 2, 2), R.lit(":"), R.rep(D, 2, 2), R.lit(":"), R.rep(D, 2, 2), R.cset(":;"), R.rep(D, 2, 2))
