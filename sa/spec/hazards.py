"""Characters / substrings that change structure, per output context, and
what neutralises them."""

# sanitiser name -> set of hazards it neutralises
COVERS = {
    "xml": {"&", "<", ">"},          # xml.sax.saxutils.escape
    "xml+quot": {"&", "<", ">", '"'},  # escape(s, {'"': '&quot;'}) / quoteattr
}

CONTEXT_HAZARDS = {
    # bs4 attribute API with formatter=None: bs4 chooses the quote character itself, nothing else is substituted
    "soup-attr-raw": {"&", "<"},
    # markup assembled by hand and stored with tag.string / appended as a string, formatter=None
    # (']]>' may not occur in XML character data: XML 1.0 section 2.4; escaping '>' neutralises it)
    "markup-text-raw": {"&", "<", "]]>"},
    "markup-attr-dq-raw": {"&", "<", '"'},
    # WebVTT cue payload
    "webvtt-cue-text": {"&", "<", "-->"},
}


def missing_hazards(need, covered):
    """hazards of `need` not neutralised: a multi-character hazard is neutralised when it, or any
    one of its characters, is"""
    out = []
    for h in need:
        if h in covered or (len(h) > 1 and any(ch in covered for ch in set(h))):
            continue
        out.append(h)
    return sorted(out)


def replace_step(name):
    """'replace:a→b' -> (a, b) or None"""
    if name.startswith("replace:") and "→" in name:
        a, b = name[len("replace:"):].split("→", 1)
        return a, b
    return None


def coverage(escapes):
    """hazards neutralised by a chain of sanitisers, how many times '&' was
    encoded (double-escaping detector), and table-order problems"""
    covered = set()
    amp_encodings = 0
    problems = []
    seen_steps = []
    for e in escapes:
        if e in COVERS:
            covered |= COVERS[e]
            amp_encodings += 1
            seen_steps.append(("&", "&amp;"))
            continue
        if e == "unescape":
            problems.append("an unescape step decodes text on its way out")
            continue
        st = replace_step(e)
        if st is None:
            continue
        a, b = st
        import re as _re
        if a == "&":
            if _re.fullmatch(r"&#?\w+;", b):
                covered.add(a)
            else:
                problems.append(f"'&' is not replaced by a character reference ({b!r})")
        elif a in b:
            problems.append(f"replacement of {a!r} re-introduces it ({b!r})")
        else:
            covered.add(a)
        if a == "&":
            amp_encodings += 1
            # '&' must be encoded before any step whose replacement introduces '&'
            for pa, pb in seen_steps:
                if "&" in pb and pa != "&":
                    problems.append(f"'&' is encoded after {pa!r} -> {pb!r}: the entity just written is encoded again")
        seen_steps.append((a, b))
    return covered, amp_encodings, problems
