"""Thorough tier: self-validation of the checker on the current tree.

 1 curated seeded variants (/verif/seeded/<id>/patch.diff, verified to break the property while passing the pinned
   suite): applied to a throw-away copy of /repo/pycaption (tempfile, removed afterwards); every variant that applies
   must be REPORTED by this property's check (a new VIOLATION).  A miss is a checker failure (ANALYSIS-ERROR, exit 2).
 2 silent twins (/verif/twins/<id>/patch.diff, behaviour-preserving refactorings): must produce NO violation.
 3 generic single-site AST mutants generated in memory from the functions the check covered (constants perturbed,
   comparison operators flipped, boolean constants negated, `and`/`or` swapped): reported as a mutation score only -
   a generic mutant need not break THIS property, so a survivor is not a failure.
Skipped (with a note) when the current tree itself has new violations: then the tree, not the checker, is in question.
"""
import ast
import glob
import json
import os
import random
import re
import shutil
import subprocess
import tempfile
import time
from concurrent.futures import ProcessPoolExecutor

from .core.tree import SourceTree, AnalysisError, REPO_ROOT
from .core import report as rep

VERIF = os.path.dirname(os.path.dirname(os.path.abspath(__file__)))
MAX_GENERIC = int(os.environ.get("VERIF_SELFVAL_MUTANTS", "48"))


def _run_on_tree(prop, tree):
    from .cli import run_property
    try:
        r = run_property(prop, tree)
    except AnalysisError as e:
        return {"status": "analysis-error", "detail": str(e)[:200], "new": 0}
    except Exception as e:       # checker crash on an odd variant
        return {"status": "analysis-error", "detail": f"{type(e).__name__}: {e}"[:200], "new": 0}
    new, known, stale = rep.split_violations(r)
    if new:
        return {"status": "violation", "new": len(new), "rules": sorted({i.rule for i in new}),
                "first": f"{new[0].rule} {new[0].where()}: {new[0].construct}"[:220]}
    if r.analysis_errors:
        return {"status": "analysis-error", "detail": r.analysis_errors[0][:200], "new": 0}
    return {"status": "clean", "new": 0}


def _apply_patch(patch):
    """-> SourceTree of /repo/pycaption with the patch applied, or None if it does not apply"""
    d = tempfile.mkdtemp(prefix="verif_selfval_")
    try:
        shutil.copytree(os.path.join(REPO_ROOT, "pycaption"), os.path.join(d, "pycaption"),
                        ignore=shutil.ignore_patterns("__pycache__"))
        p = subprocess.run(["patch", "-p1", "--no-backup-if-mismatch", "-s", "-i", patch], cwd=d,
                           capture_output=True, text=True)
        if p.returncode != 0:
            return None
        return SourceTree.load(d)
    finally:
        shutil.rmtree(d, ignore_errors=True)


def _patch_job(args):
    prop, patch = args
    tree = _apply_patch(patch)
    if tree is None:
        return patch, {"status": "does-not-apply"}
    return patch, _run_on_tree(prop, tree)


# -- generic mutation -----------------------------------------------------------------
class _Mutator(ast.NodeTransformer):
    def __init__(self, target_index):
        self.i = -1
        self.target = target_index
        self.desc = None

    def _hit(self):
        self.i += 1
        return self.i == self.target

    def visit_Constant(self, node):
        if isinstance(node.value, bool):
            if self._hit():
                self.desc = f"line {node.lineno}: {node.value} -> {not node.value}"
                return ast.copy_location(ast.Constant(not node.value), node)
        elif isinstance(node.value, (int, float)) and node.value not in (0, 1, -1):
            if self._hit():
                nv = node.value * 10 if isinstance(node.value, int) else node.value * 2
                self.desc = f"line {node.lineno}: {node.value} -> {nv}"
                return ast.copy_location(ast.Constant(nv), node)
        return node

    def visit_Compare(self, node):
        self.generic_visit(node)
        if len(node.ops) == 1:
            swap = {ast.Lt: ast.LtE, ast.LtE: ast.Lt, ast.Gt: ast.GtE, ast.GtE: ast.Gt, ast.Eq: ast.NotEq,
                    ast.NotEq: ast.Eq, ast.In: ast.NotIn, ast.NotIn: ast.In}
            t = swap.get(type(node.ops[0]))
            if t is not None and self._hit():
                self.desc = f"line {node.lineno}: {type(node.ops[0]).__name__} -> {t.__name__}"
                node.ops = [t()]
        return node

    def visit_BoolOp(self, node):
        self.generic_visit(node)
        if self._hit():
            new = ast.Or() if isinstance(node.op, ast.And) else ast.And()
            self.desc = f"line {node.lineno}: {type(node.op).__name__} -> {type(new).__name__}"
            node.op = new
        return node

    def visit_BinOp(self, node):
        self.generic_visit(node)
        swap = {ast.Add: ast.Sub, ast.Sub: ast.Add, ast.Mult: ast.Div, ast.Div: ast.Mult, ast.FloorDiv: ast.Div,
                ast.Mod: ast.FloorDiv}
        t = swap.get(type(node.op))
        if t is not None and not (isinstance(node.op, (ast.Add, ast.Mod)) and
                                  (isinstance(node.left, (ast.Constant, ast.JoinedStr)) and isinstance(getattr(node.left, "value", None), str)
                                   or isinstance(node.left, ast.JoinedStr))) and self._hit():
            self.desc = f"line {node.lineno}: {type(node.op).__name__} -> {t.__name__}"
            node.op = t()
        return node

    def visit_UnaryOp(self, node):
        self.generic_visit(node)
        if isinstance(node.op, ast.Not) and self._hit():
            self.desc = f"line {node.lineno}: `not` removed"
            return node.operand
        return node

    def visit_Expr(self, node):
        # a statement-level call dropped
        if isinstance(node.value, ast.Call) and self._hit():
            self.desc = f"line {node.lineno}: statement dropped: {ast.unparse(node)[:60]}"
            return ast.copy_location(ast.Pass(), node)
        self.generic_visit(node)
        return node

    def visit_Assign(self, node):
        # an assignment to object state dropped
        if any(isinstance(t, ast.Attribute) for t in node.targets) and self._hit():
            self.desc = f"line {node.lineno}: statement dropped: {ast.unparse(node)[:60]}"
            return ast.copy_location(ast.Pass(), node)
        self.generic_visit(node)
        return node


def _count_sites(fnode):
    m = _Mutator(-2)
    import copy
    m.visit(copy.deepcopy(fnode))
    return m.i + 1


def generic_mutants(tree, covered_keys, seed, cap):
    """[(rel path, description, mutated source)] - one site each, inside covered functions only"""
    import copy
    by_file = {}
    for key in covered_keys:
        path, q = key.split(":", 1)
        by_file.setdefault(path, set()).add(q)
    sites = []
    for path, quals in by_file.items():
        if path not in tree.files:
            continue
        mod = tree.ast(path)
        for node in ast.walk(mod):
            if isinstance(node, ast.ClassDef):
                for b in node.body:
                    if isinstance(b, ast.FunctionDef) and f"{node.name}.{b.name}" in quals:
                        for k in range(_count_sites(b)):
                            sites.append((path, node.name, b.name, k))
            elif isinstance(node, ast.FunctionDef) and node.name in quals and node in mod.body:
                for k in range(_count_sites(node)):
                    sites.append((path, None, node.name, k))
    rnd = random.Random(seed)
    rnd.shuffle(sites)
    out = []
    for path, cname, fname, k in sites[:cap]:
        mod = copy.deepcopy(tree.ast(path))
        target = None
        for node in ast.walk(mod):
            if cname and isinstance(node, ast.ClassDef) and node.name == cname:
                for b in node.body:
                    if isinstance(b, ast.FunctionDef) and b.name == fname:
                        target = b
            elif not cname and isinstance(node, ast.FunctionDef) and node.name == fname and node in mod.body:
                target = node
        if target is None:
            continue
        m = _Mutator(k)
        m.visit(target)
        if m.desc is None:
            continue
        try:
            srcx = ast.unparse(ast.fix_missing_locations(mod))
        except Exception:
            continue
        out.append((path, f"{(cname + '.') if cname else ''}{fname}: {m.desc}", srcx))
    return out, len(sites)


def _generic_job(args):
    prop, files, path, srcx = args
    tree = SourceTree(files, label="generic-mutant").overlay({path: srcx})
    return _run_on_tree(prop, tree)


def run(prop, tree, report, seed):
    t0 = time.time()
    new, known, stale = rep.split_violations(report)
    if new or report.analysis_errors:
        return {"status": "skipped: the current tree itself has new violations or analysis errors", "failures": []}
    out = {"status": "ran", "failures": []}
    # seeded variants this check is on record as reporting (seeded/EXPECTED.json, regenerated by
    # tools/expected_gen.py from a full run) plus every variant made for this property
    try:
        expected = json.load(open(os.path.join(VERIF, "seeded", "EXPECTED.json")))
    except (OSError, ValueError):
        expected = {}
    own = {os.path.basename(os.path.dirname(p)) for p in
           glob.glob(os.path.join(VERIF, "seeded", f"{prop}-m*", "patch.diff")) +
           glob.glob(os.path.join(VERIF, "seeded", f"{prop}-r2m*", "patch.diff"))}
    must = {v for v, e in expected.items() if prop in e.get("reported_by", [])}
    seeded = sorted(os.path.join(VERIF, "seeded", v, "patch.diff") for v in own | must
                    if os.path.exists(os.path.join(VERIF, "seeded", v, "patch.diff")))
    # the twins that touch a file in which this check analysed something (a patch elsewhere cannot change what it sees)
    covered_files = {str(k).split(":")[0] for k in report.analysed}
    twins = []
    for p in sorted(glob.glob(os.path.join(VERIF, "twins", "*", "patch.diff"))):
        try:
            touched = set(re.findall(r"^\+\+\+ b/(\S+)", open(p).read(), re.M))
        except OSError:
            continue
        if touched & covered_files or not covered_files:
            twins.append(p)
    jobs = [(prop, p) for p in seeded + twins]
    res = {}
    if jobs:
        with ProcessPoolExecutor(max_workers=min(16, len(jobs))) as ex:
            for patch, r in ex.map(_patch_job, jobs):
                res[patch] = r
    sv = []
    for p in seeded:
        r = res[p]
        mid = os.path.basename(os.path.dirname(p))
        e = expected.get(mid, {})
        entry = {"variant": mid, **r}
        if r["status"] == "violation":
            pass
        elif mid in must or (not expected and r["status"] == "clean"):
            out["failures"].append(f"seeded variant {mid} is not reported ({r['status']}: {r.get('detail', '')})")
        elif r["status"] == "clean":
            # made for this property, decided through a clause another property's check owns
            others = [p_ for p_ in e.get("reported_by", []) if p_ != prop]
            if others:
                entry["note"] = f"not visible to this check's clauses; reported by {', '.join(others)}"
            else:
                out["failures"].append(f"seeded variant {mid} is reported by no check")
        else:
            entry["note"] = "refused: the changed construct is outside the shapes this check can judge (exit 2 on that tree)"
        sv.append(entry)
    tw = []
    for p in twins:
        r = res[p]
        tid = os.path.basename(os.path.dirname(p))
        tw.append({"twin": tid, **r})
        if r["status"] == "violation":
            out["failures"].append(f"silent twin {tid} raises a false alarm: {r.get('first')}")
    out["seeded_variants"] = sv
    out["seeded_reported"] = sum(1 for x in sv if x["status"] == "violation")
    out["seeded_applicable"] = sum(1 for x in sv if x["status"] != "does-not-apply")
    out["silent_twins"] = {"total": len(tw), "clean": sum(1 for x in tw if x["status"] == "clean"),
                           "unrecognised_shape": [x["twin"] for x in tw if x["status"] == "analysis-error"],
                           "not_applicable": sum(1 for x in tw if x["status"] == "does-not-apply"),
                           "false_alarms": [x for x in tw if x["status"] == "violation"]}
    # generic mutants
    muts, total_sites = generic_mutants(tree, sorted(report.analysed), seed, MAX_GENERIC)
    gres = []
    if muts:
        with ProcessPoolExecutor(max_workers=16) as ex:
            gres = list(ex.map(_generic_job, [(prop, tree.files, p, s) for p, d, s in muts]))
    killed = sum(1 for r in gres if r["status"] == "violation")
    errs = sum(1 for r in gres if r["status"] == "analysis-error")
    out["generic_mutants"] = {
        "sites_in_covered_functions": total_sites, "sampled": len(muts), "seed": seed,
        "reported_as_violation": killed, "analysis_error": errs, "not_reported": len(muts) - killed - errs,
        "note": "a generic mutant need not break this property; survivors are listed for triage, not counted as failures",
        "examples_reported": [d for (p, d, s), r in zip(muts, gres) if r["status"] == "violation"][:8],
        "examples_not_reported": [d for (p, d, s), r in zip(muts, gres) if r["status"] == "clean"][:8],
    }
    out["wall_s"] = round(time.time() - t0, 2)
    return out
